#!/bin/sh
# Run once after a fresh restore, offline: warms the Go build cache for the
# harness and verifies the tools the checks need.
set -u
ROOT="$(cd "$(dirname "$0")/.." && pwd)"
TC=/root/go/pkg/mod/golang.org/toolchain@v0.0.1-go1.24.0.linux-amd64/bin
if [ -x "$TC/go" ]; then export PATH="$TC:$PATH" GOTOOLCHAIN=local GOSUMDB=off; else unset GOSUMDB; export GOTOOLCHAIN=auto; fi
export GOFLAGS=-mod=mod GOPROXY=off GOWORK=off
cp /repo/go.sum "$ROOT/harness/go.sum" || exit 1
(cd "$ROOT/harness" && go build -o /dev/null ./cmd/verif && go vet ./mockdrv/) || { echo "harness does not build"; exit 1; }
(cd /repo && go build -o /dev/null .) || { echo "moq does not build"; exit 1; }
java -version >/dev/null 2>&1 || { echo "java not runnable"; exit 1; }
[ -f /opt/veriftools/tla/tla2tools.jar ] || { echo "tla2tools.jar missing"; exit 1; }
mkdir -p "$ROOT/evidence"
echo setup ok
