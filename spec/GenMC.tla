-------------------------------- MODULE GenMC --------------------------------
(* Design-level model checking of the import registry, self-contained: the    *)
(* universe of inputs is defined here (an adversarial alphabet of import      *)
(* paths and package names), every ordered selection of up to MaxPkgs         *)
(* packages is an initial state, and for each the Registry model computes     *)
(* ALL outcomes over Go's map-iteration choices.  TLC counts the inputs for   *)
(* which the algorithm as written                                             *)
(*    diverges (C19), ends with a duplicate qualifier (C11), is not           *)
(*    confluent, i.e. the outcome depends on map order (C14), hands out an    *)
(*    alias that is no usable identifier (C11).                               *)
(* These are the recorded findings KF-02, KF-01 and KF-18; confluence holds   *)
(* for the whole universe, which is the design-level half of C14.             *)
(* The harness reads the counts and compares them with what the real moq      *)
(* does on the same universe (internal/gen/corpus.go builds the very same     *)
(* paths).                                                                    *)
EXTENDS Registry, MoqNames, TLC

CONSTANTS MaxPkgs

C(s) == s   \* components are written as sequences of one-character strings
(* path components (last first) and package name; the module prefix          *)
(* wmod.test/w/d is part of every path, as in the scratch worlds             *)
Prefix == << <<"d">>, <<"w">>, <<"w","m","o","d",".","t","e","s","t">> >>
U == { [id |-> "y",      name |-> "y",   comps |-> << <<"y">> >>],
       [id |-> "x/y",    name |-> "y",   comps |-> << <<"y">>, <<"x">> >>],
       [id |-> "xy",     name |-> "y",   comps |-> << <<"x","y">> >>],
       [id |-> "x/xy",   name |-> "y",   comps |-> << <<"x","y">>, <<"x">> >>],
       [id |-> "z/y",    name |-> "foo", comps |-> << <<"y">>, <<"z">> >>],
       [id |-> "w/xy",   name |-> "foo", comps |-> << <<"x","y">>, <<"w">> >>],
       [id |-> "x/a-b",  name |-> "y",   comps |-> << <<"a","-","b">>, <<"x">> >>],
       [id |-> "x/ab",   name |-> "y",   comps |-> << <<"a","b">>, <<"x">> >>],
       [id |-> "go-x",   name |-> "foo", comps |-> << <<"g","o","-","x">> >>],
       [id |-> "y/v2",   name |-> "y",   comps |-> << <<"v","2">>, <<"y">> >>],
       [id |-> "w/y",    name |-> "foo", comps |-> << <<"y">>, <<"w">> >>],
       [id |-> "v2",     name |-> "foo", comps |-> << <<"v","2">> >>],
       \* components that make unusable aliases once stripped and joined (KF-18)
       [id |-> "p/go",   name |-> "y",   comps |-> << <<"g","o">>, <<"p">> >>],
       [id |-> "2fa",    name |-> "y",   comps |-> << <<"2","f","a">> >>],
       [id |-> "r/error", name |-> "foo", comps |-> << <<"e","r","r","o","r">>, <<"r">> >>] }

Pkg(u) == [path |-> u.id, name |-> u.name, alias |-> "",
           san |-> [i \in 1..(Len(u.comps) + Len(Prefix)) |->
                      IF i <= Len(u.comps) THEN SanComp(u.comps[i]) ELSE SanComp(Prefix[i - Len(u.comps)])],
           sanCs |-> [i \in 1..(Len(u.comps) + Len(Prefix)) |->
                      IF i <= Len(u.comps) THEN SanChars(u.comps[i]) ELSE SanChars(Prefix[i - Len(u.comps)])]]

Seqs(n) == IF n = 1 THEN {<<Pkg(u)>> : u \in U}
           ELSE IF n = 2 THEN {<<Pkg(a), Pkg(b)>> : a, b \in U}
           ELSE {<<Pkg(a), Pkg(b), Pkg(c)>> : a, b, c \in U}
Distinct(s) == \A i, j \in DOMAIN s : i # j => s[i].path # s[j].path

VARIABLES input, done
Init == /\ input \in UNION {{s \in Seqs(n) : Distinct(s)} : n \in 1..MaxPkgs}
        /\ done = FALSE
Next == /\ ~done /\ done' = TRUE /\ UNCHANGED input
        /\ LET F == Finals(input, "") IN
           /\ TLCSet(1, TLCGet(1) + 1)
           /\ TLCSet(2, TLCGet(2) + (IF CanDiverge(F) THEN 1 ELSE 0))
           /\ TLCSet(3, TLCGet(3) + (IF CanDuplicate(F) THEN 1 ELSE 0))
           /\ TLCSet(4, TLCGet(4) + (IF ~CanDiverge(F) /\ ~Confluent(F) THEN 1 ELSE 0))
           /\ TLCSet(5, TLCGet(5) + (IF \E r \in Good(F) : \E q \in DOMAIN r.imp : BadAlias(r.imp[q]) THEN 1 ELSE 0))
Spec == Init /\ [][Next]_<<input, done>>

ASSUME TLCSet(1, 0) /\ TLCSet(2, 0) /\ TLCSet(3, 0) /\ TLCSet(4, 0) /\ TLCSet(5, 0)

(* C14, design level: wherever the algorithm terminates, its outcome does    *)
(* not depend on the order in which Go ranges over the imports map           *)
ConfluentEverywhere == done => LET F == Finals(input, "") IN CanDiverge(F) \/ Confluent(F)

Summary == PrintT("GENMC " \o ToString(TLCGet(1)) \o " " \o ToString(TLCGet(2)) \o " " \o ToString(TLCGet(3)) \o " " \o ToString(TLCGet(4)) \o " " \o ToString(TLCGet(5)))
=============================================================================
