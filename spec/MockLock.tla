------------------------------ MODULE MockLock ------------------------------
(* Unbounded-time argument for the lock discipline of one method of a        *)
(* generated mock (C05): any number of operations by a fixed set of          *)
(* goroutines, each forever choosing between calling M (LA LQ RD WR UL),     *)
(* reading MCalls() (RL SNAP RUL) and resetting (LA LQ CLR UL).  The list is *)
(* abstracted to its length.  IndInv is inductive (checked with Apalache:    *)
(* Init => IndInv, IndInv /\ Next => IndInv'), hence holds in every          *)
(* reachable state, and implies NoLostUpdate, mutual exclusion and           *)
(* RaceFree without any bound on the length of the execution.                *)
EXTENDS Integers, FiniteSets

CONSTANT
    \* @type: Set(Str);
    G

VARIABLES
    \* @type: Str -> Str;
    pc,
    \* @type: Int;
    len,
    \* @type: Str -> Int;
    tmp,
    \* @type: Str;
    writer,
    \* @type: Str;
    announced,
    \* @type: Set(Str);
    readers,
    \* @type: Str -> Str;
    op

None == "none"
PCs == {"idle", "LA", "LQ", "RD", "WR", "CLR", "UL", "RL", "SNAP", "RUL"}
Ops == {"-", "call", "reset", "calls"}

Init == /\ pc = [g \in G |-> "idle"] /\ len = 0 /\ tmp = [g \in G |-> 0]
        /\ writer = None /\ announced = None /\ readers = {} /\ op = [g \in G |-> "-"]

Start(g) == /\ pc[g] = "idle"
            /\ \E o \in {"call", "reset", "calls"} :
                 /\ op' = [op EXCEPT ![g] = o]
                 /\ pc' = [pc EXCEPT ![g] = IF o = "calls" THEN "RL" ELSE "LA"]
            /\ UNCHANGED <<len, tmp, writer, announced, readers>>
LA(g) == /\ pc[g] = "LA" /\ announced = None
         /\ announced' = g /\ pc' = [pc EXCEPT ![g] = "LQ"]
         /\ UNCHANGED <<len, tmp, writer, readers, op>>
LQ(g) == /\ pc[g] = "LQ" /\ readers = {} /\ writer = None
         /\ writer' = g /\ pc' = [pc EXCEPT ![g] = IF op[g] = "call" THEN "RD" ELSE "CLR"]
         /\ UNCHANGED <<len, tmp, announced, readers, op>>
RD(g) == /\ pc[g] = "RD" /\ tmp' = [tmp EXCEPT ![g] = len] /\ pc' = [pc EXCEPT ![g] = "WR"]
         /\ UNCHANGED <<len, writer, announced, readers, op>>
WR(g) == /\ pc[g] = "WR" /\ len' = tmp[g] + 1 /\ pc' = [pc EXCEPT ![g] = "UL"]
         /\ UNCHANGED <<tmp, writer, announced, readers, op>>
CLR(g) == /\ pc[g] = "CLR" /\ len' = 0 /\ pc' = [pc EXCEPT ![g] = "UL"]
          /\ UNCHANGED <<tmp, writer, announced, readers, op>>
UL(g) == /\ pc[g] = "UL" /\ writer' = None /\ announced' = None
         /\ pc' = [pc EXCEPT ![g] = "idle"] /\ op' = [op EXCEPT ![g] = "-"]
         /\ UNCHANGED <<len, tmp, readers>>
RL(g) == /\ pc[g] = "RL" /\ announced = None
         /\ readers' = readers \union {g} /\ pc' = [pc EXCEPT ![g] = "SNAP"]
         /\ UNCHANGED <<len, tmp, writer, announced, op>>
SNAP(g) == /\ pc[g] = "SNAP" /\ pc' = [pc EXCEPT ![g] = "RUL"]
           /\ UNCHANGED <<len, tmp, writer, announced, readers, op>>
RUL(g) == /\ pc[g] = "RUL" /\ readers' = readers \ {g}
          /\ pc' = [pc EXCEPT ![g] = "idle"] /\ op' = [op EXCEPT ![g] = "-"]
          /\ UNCHANGED <<len, tmp, writer, announced>>

Next == \E g \in G : Start(g) \/ LA(g) \/ LQ(g) \/ RD(g) \/ WR(g) \/ CLR(g) \/ UL(g) \/ RL(g) \/ SNAP(g) \/ RUL(g)

TypeOK == /\ pc \in [G -> PCs] /\ op \in [G -> Ops] /\ tmp \in [G -> Int] /\ len \in Int
          /\ writer \in G \union {None} /\ announced \in G \union {None} /\ readers \in SUBSET G

IndInv ==
    /\ TypeOK
    /\ len >= 0
    /\ None \notin G
    \* who is where with respect to the lock
    /\ \A g \in G : (pc[g] \in {"LQ", "RD", "WR", "CLR", "UL"}) <=> (announced = g)
    /\ \A g \in G : (pc[g] \in {"RD", "WR", "CLR", "UL"}) <=> (writer = g)
    /\ \A g \in G : (pc[g] \in {"SNAP", "RUL"}) <=> (g \in readers)
    /\ (writer # None) => (readers = {} /\ announced = writer)
    /\ (announced = None) => (writer = None)
    \* program shape
    /\ \A g \in G : pc[g] \in {"RD", "WR"} => op[g] = "call"
    /\ \A g \in G : pc[g] = "CLR" => op[g] = "reset"
    /\ \A g \in G : pc[g] \in {"LA", "LQ", "UL"} => op[g] \in {"call", "reset"}
    /\ \A g \in G : pc[g] \in {"RL", "SNAP", "RUL"} => op[g] = "calls"
    \* no lost update: what WR writes back extends the current list
    /\ \A g \in G : pc[g] = "WR" => tmp[g] = len

\* consequences (checked as invariants of IndInv-states)
NoLostUpdate == \A g \in G : pc[g] = "WR" => tmp[g] = len
RaceFree == \A g1, g2 \in G : g1 # g2 =>
              ~(pc[g1] \in {"WR", "CLR"} /\ pc[g2] \in {"RD", "WR", "CLR", "SNAP"})

\* @type: () => Bool;
ConstInit == G = {"g1", "g2", "g3", "g4"}
=============================================================================
