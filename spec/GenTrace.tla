------------------------------ MODULE GenTrace ------------------------------
(* Code -> spec for the generator family.  Every line of the trace file is   *)
(* one real generation: the abstract input, the configuration, and the       *)
(* observation the harness projected from moq's actual output with           *)
(* go/parser + go/types (type errors in the destination package, imports     *)
(* with their real names and whether they are used, canonical signature      *)
(* keys of interface / mock / func field, parameter and record field         *)
(* identifiers, instantiations of generic mocks, repeated-run and            *)
(* formatter comparisons).  The requirement predicates below are the         *)
(* definitions of the properties; each is evaluated on every record and      *)
(* every failed predicate is reported with the case number.  The predicates  *)
(* speak about what users rely on (it compiles, it implements, names are     *)
(* distinct...) and never about which particular alias or spelling moq       *)
(* happens to choose, so a behaviour-preserving refactoring cannot fail.     *)
EXTENDS MoqNames, FiniteSets, TLC, Json

CONSTANT TraceFile
Trace == ndJsonDeserialize(TraceFile)

VARIABLES l, fails
vars == <<l, fails>>

Range(s) == {s[i] : i \in DOMAIN s}
Distinct(s) == \A i, j \in DOMAIN s : i # j => s[i] # s[j]
Keys(sigs) == {<<sigs[i].name, sigs[i].key, sigs[i].variadic>> : i \in DOMAIN sigs}
Names(sigs) == {sigs[i].name : i \in DOMAIN sigs}

(* ---------------------------------------------------------------- C01 ---- *)
(* complete Go file that type-checks in its destination: the instrument      *)
(* (go/types) reported no error; no import is unused or missing              *)
C01(c) == LET o == c.obs IN
    /\ o.parseOK
    /\ o.typeErrors = <<>>
    /\ \A i \in DOMAIN o.imports : o.imports[i].used
    /\ o.pkgName = c.expectPkg

(* ---------------------------------------------------------------- C02 ---- *)
MockImplements(m) ==
    /\ m.found /\ m.isStruct
    \* a mock is generic exactly if its interface is (a generic mock of a plain interface implements nothing as it stands)
    /\ Len(m.tparams) = Len(m.ifaceTParams)
    /\ (~m.generic) => m.assignable
    /\ m.generic => \A i \in DOMAIN m.instances :
                       (m.instances[i].ifaceOK /\ m.instances[i].mockOK) => (m.instances[i].assignable /\ m.instances[i].sigsEqual)
    \* every interface method: one mock method and one func field with the identical signature
    /\ (~m.generic) => (Keys(m.mockSigs) = Keys(m.ifaceSigs) /\ Keys(m.fieldSigs) = Keys(m.ifaceSigs))
    /\ Len(m.mockSigs) = Len(m.ifaceSigs) /\ Len(m.fieldSigs) = Len(m.ifaceSigs)
    \* exactly one companion field per method, and no stray one
    /\ Distinct(m.funcFields)
    /\ Range(m.funcFields) = {n \o "Func" : n \in Names(m.ifaceSigs)}
C02(c) == \A i \in DOMAIN c.obs.mocks : MockImplements(c.obs.mocks[i])

(* ---------------------------------------------------------------- C08 ---- *)
(* reset API exactly on request (static part; behaviour is MockSeq's)        *)
ResetAPI(m, with) ==
    \* m.resetLike: methods of *Mock named Reset... that are not interface methods
    IF with THEN /\ m.hasResetAll
                 /\ \A i \in DOMAIN m.methods : m.methods[i].hasReset
            ELSE m.resetLike = <<>>
C08(c) == \A i \in DOMAIN c.obs.mocks : ResetAPI(c.obs.mocks[i], c.cfg.withResets)

(* ---------------------------------------------------------------- C06 ---- *)
(* static part (behaviour is the schedule exploration's): every method of a  *)
(* mock has a pointer receiver - one on the value would lock a copy of the   *)
(* mock's mutexes, taken while the original may be held                      *)
C06(c) == c.obs.valueReceivers = <<>>

(* ---------------------------------------------------------------- C09 ---- *)
GenericKept(m) ==
    m.generic =>
      /\ Len(m.tparams) = Len(m.ifaceTParams)
      \* same constraint at the same position (compared when the spelling of the parameter names agrees)
      /\ (\A i \in DOMAIN m.tparams : m.tparams[i].name = m.ifaceTParams[i].name)
            => \A i \in DOMAIN m.tparams : m.tparams[i].constraint = m.ifaceTParams[i].constraint
      \* the same type-argument lists are accepted, and then the instance implements the instance
      /\ \A i \in DOMAIN m.instances :
            /\ m.instances[i].ifaceOK <=> m.instances[i].mockOK
            /\ m.instances[i].ifaceOK => (m.instances[i].assignable /\ m.instances[i].sigsEqual)
C09(c) == /\ \A i \in DOMAIN c.obs.mocks : c.obs.mocks[i].found /\ GenericKept(c.obs.mocks[i])
          \* the emitted self-check instantiation is valid Go: the file type-checks
          /\ (~c.cfg.skipEnsure /\ \E i \in DOMAIN c.obs.mocks : c.obs.mocks[i].generic) => c.obs.typeErrors = <<>>

(* ---------------------------------------------------------------- C10 ---- *)
SrcImported(o) == \E i \in DOMAIN o.imports : o.imports[i].path = o.srcPath
C10(c) == LET o == c.obs IN
    /\ o.srcMisqualified = 0
    /\ o.misresolved = 0      \* no reference resolves to a same-named type of another package than the interface's
    /\ IF o.inPlace
       THEN ~SrcImported(o) /\ o.srcQualified = 0
       ELSE /\ o.srcBare = 0
            /\ IF c.cfg.skipEnsure THEN SrcImported(o) <=> o.refsSrcTypes
               ELSE (o.mocks # <<>>) => SrcImported(o)

(* ---------------------------------------------------------------- C11 ---- *)
NeedsSync(o) == \E i \in DOMAIN o.mocks : o.mocks[i].ifaceSigs # <<>>
C11(c) == LET o == c.obs
              im == o.imports IN
    /\ o.importsOK                                                  \* the import declarations parse at all
    /\ o.missingImport = <<>>                                       \* no type is written without the import of its package
    /\ Distinct([i \in DOMAIN im |-> im[i].path])                  \* each package once
    /\ \A i \in DOMAIN im : im[i].alias \notin {".", "_"}            \* never dot or blank
    /\ \A i \in DOMAIN im : im[i].used                               \* nothing else
    /\ \A i \in DOMAIN im : ~im[i].vendored                          \* canonical path
    /\ Distinct([i \in DOMAIN im |-> im[i].qual])                    \* unique qualifiers
    /\ \A i \in DOMAIN im : IsIdent(im[i].qualCs) /\ im[i].qual \notin Keywords
    /\ (\E i \in DOMAIN im : im[i].path = "sync") <=> NeedsSync(o)
    \* a source alias that conflicts with nothing (no other imported package is
    \* named, or aliased in the source, like it) is kept
    /\ \A k \in DOMAIN c.srcAliases :
          LET sa == c.srcAliases[k]
              AliasOf(p) == IF \E j \in DOMAIN c.srcAliases : c.srcAliases[j].path = p
                            THEN c.srcAliases[CHOOSE j \in DOMAIN c.srcAliases : c.srcAliases[j].path = p].alias ELSE ""
              free == \A i \in DOMAIN im : im[i].path # sa.path => (im[i].name # sa.alias /\ AliasOf(im[i].path) # sa.alias)
          IN (free /\ \E i \in DOMAIN im : im[i].path = sa.path)
                => \E i \in DOMAIN im : im[i].path = sa.path /\ im[i].qual = sa.alias

(* ---------------------------------------------------------------- C12 ---- *)
MethodNamesOK(o, me) ==
    LET locals == me.params \o me.stubVars
        quals  == {o.imports[i].qual : i \in DOMAIN o.imports} IN
    /\ Distinct(locals)
    /\ \A i \in DOMAIN locals : /\ locals[i] \notin Keywords
                                /\ locals[i] # me.recv                    \* the receiver
                                /\ locals[i] \notin Range(me.locals)      \* variables the generated body declares (the record)
                                /\ locals[i] \notin Range(me.sigIdents)   \* qualifiers and type names the method must still resolve
                                /\ locals[i] # "" /\ locals[i] # "_"
    /\ Distinct(me.recFields)
    /\ Len(me.recFields) = Len(me.params)
    /\ me.fieldParams = me.params
C12(c) == /\ c.obs.parseOK     \* a file that does not parse has an identifier (or more) that is not one
          /\ \A i \in DOMAIN c.obs.mocks : \A j \in DOMAIN c.obs.mocks[i].methods : MethodNamesOK(c.obs, c.obs.mocks[i].methods[j])

(* ---------------------------------------------------------------- C13 ---- *)
(* c.names: for every method of the input, per parameter: declared name     *)
(* (chars), abstract type, and whether the harness's input says this name    *)
(* can collide with nothing (judge = TRUE)                                   *)
Judged(nm) == nm.judge /\ (nm.nameCs # <<>> \/ Documented(nm.t))
C13(c) == \A k \in DOMAIN c.names :
            LET nm == c.names[k] IN
            Judged(nm) =>
              LET want == IF nm.nameCs # <<>> THEN nm.nameCs ELSE DefaultName(nm.t) IN
              /\ nm.gotParam = Join(want)
              /\ nm.gotField = Join(Exported(want))

C13Detail(c) == {<<c.case, c.names[k].method, Join(IF c.names[k].nameCs # <<>> THEN c.names[k].nameCs ELSE DefaultName(c.names[k].t)),
                    c.names[k].gotParam, c.names[k].gotField>> :
                  k \in {k \in DOMAIN c.names : Judged(c.names[k]) /\
                         LET want == IF c.names[k].nameCs # <<>> THEN c.names[k].nameCs ELSE DefaultName(c.names[k].t) IN
                         ~(c.names[k].gotParam = Join(want) /\ c.names[k].gotField = Join(Exported(want)))}}

(* documented default names only judge; the undocumented ones are drift *)
C13Drift(c) == \A k \in DOMAIN c.names :
            LET nm == c.names[k] IN
            (nm.judge /\ ~Judged(nm)) => nm.gotParam = Join(DefaultName(nm.t))

(* ---------------------------------------------------------------- C14 ---- *)
C14(c) == c.obs.distinct = 1

(* ---------------------------------------------------------------- C16 ---- *)
C16(c) == LET o == c.obs IN
    o.fmtRan =>
      /\ o.markerFirst /\ o.firstLine = "// Code generated by moq; DO NOT EDIT."
      /\ o.gofmtStable
      /\ o.gofmtEqDefault
      /\ o.noopGofmtEqDefault
      /\ o.goimportsDecls = o.decls
      /\ Range(o.goimportsPaths) = {o.imports[i].path : i \in DOMAIN o.imports}

(* ---------------------------------------------------------------- C20 ---- *)
MockShape(m) == [sigs |-> Keys(m.mockSigs), fields |-> Keys(m.fieldSigs), ff |-> Range(m.funcFields),
                 methods |-> Range(m.allMethods), rec |-> {<<m.methods[j].name, m.methods[j].recKeys>> : j \in DOMAIN m.methods}]
C20(c) == LET o == c.obs IN
    /\ o.mockDecls = [i \in DOMAIN o.mocks |-> o.mocks[i].name]       \* one mock type per argument, in order, named as requested
    /\ \A i \in DOMAIN o.mocks : o.mocks[i].found
    /\ \A i \in DOMAIN c.solo : MockShape(c.solo[i]) = MockShape(o.mocks[c.soloIdx[i]])
    \* mocks that are valid Go alone are valid Go together
    /\ (c.solo # <<>> /\ c.soloErrs = 0) => o.typeErrors = <<>>

(* ---------------------------------------------------------------- C15 ---- *)
(* library level: with moq's own output installed in the source package the  *)
(* same request yields the same bytes (obs.distinct counts the outputs of    *)
(* the first and the second generation)                                      *)
C15(c) == (c.obs.typeErrors = <<>>) => c.obs.distinct = 1

(* ---------------------------------------------------------------- C17 ---- *)
(* library level: a failing request hands no Go source to the writer, and    *)
(* the writer is used at most once, only when everything else succeeded      *)
C17(c) == LET o == c.obs IN
    /\ o.writes <= 1
    /\ (o.exit = "error" /\ ~c.failingWriter) => (o.writes = 0 /\ o.written = 0)
    /\ (o.exit = "error") => ~(o.wroteSource /\ ~c.failingWriter)

(* ---------------------------------------------------------------- C19 ---- *)
C19(c) == /\ c.obs.exit \in {"ok", "error"}
          /\ c.obs.exit = "error" => c.obs.err # ""

-----------------------------------------------------------------------------
Check(name, ok) == IF ok THEN {} ELSE {name}

(* which predicates apply: moq accepted the input (exit ok); c.judge lists  *)
(* the properties this corpus is built to decide                             *)
Verdict(c) ==
    Check("C19", ("C19" \in Range(c.judge)) => C19(c)) \cup
    Check("C17", ("C17" \in Range(c.judge) /\ c.obs.exit \in {"ok", "error"}) => C17(c)) \cup
    (IF c.obs.exit # "ok" THEN {} ELSE
       Check("C01", ("C01" \in Range(c.judge)) => C01(c)) \cup
       Check("C02", ("C02" \in Range(c.judge)) => C02(c)) \cup
       Check("C08", ("C08" \in Range(c.judge)) => C08(c)) \cup
       Check("C09", ("C09" \in Range(c.judge)) => C09(c)) \cup
       Check("C06", ("C06" \in Range(c.judge)) => C06(c)) \cup
       Check("C10", ("C10" \in Range(c.judge)) => C10(c)) \cup
       Check("C11", ("C11" \in Range(c.judge)) => C11(c)) \cup
       Check("C12", ("C12" \in Range(c.judge)) => C12(c)) \cup
       Check("C13", ("C13" \in Range(c.judge)) => C13(c)) \cup
       Check("C13drift", ("C13" \in Range(c.judge)) => C13Drift(c)) \cup
       Check("C14", ("C14" \in Range(c.judge)) => C14(c)) \cup
       Check("C15", ("C15" \in Range(c.judge)) => C15(c)) \cup
       Check("C16", ("C16" \in Range(c.judge)) => C16(c)) \cup
       Check("C20", ("C20" \in Range(c.judge)) => C20(c)))

Init == l = 1 /\ fails = {}
Step == /\ l <= Len(Trace)
        /\ l' = l + 1
        /\ fails' = fails \cup {<<Trace[l].case, p>> : p \in Verdict(Trace[l])}
        /\ ("C13" \in Range(Trace[l].judge) /\ Trace[l].obs.exit = "ok") =>
              \A d \in C13Detail(Trace[l]) : PrintT("GEN-DETAIL " \o ToJson(d))
Spec == Init /\ [][Step]_vars

Done == (l = Len(Trace) + 1) =>
          /\ PrintT("GEN-LINES " \o ToString(Len(Trace)))
          /\ \A f \in fails : PrintT("GEN-FAIL " \o ToJson(f))
=============================================================================
