\* every scenario of main.go without the injected write failure: all requirements hold
SPECIFICATION FairSpec
CONSTANTS
  EmitJson = FALSE
  AllowTruncFault = FALSE
INVARIANTS AllOrNothing SuccessComplete InfoTouchesNothing OnlyOutTouched ExitsCleanly RmMakesPriorIrrelevant
PROPERTIES Terminates
