---------------------------- MODULE MockAbs ----------------------------
(* Requirement-level object behind properties C03, C04, C05, C07, C08:       *)
(* what a generated mock must look like to its user.  One atomic,            *)
(* append-only list of call records per method, a configured function per    *)
(* method, reset operations.  This module only defines the state function    *)
(* and the effect of each operation as pure operators, so that               *)
(*   - MockSeq      (all sequential histories, spec -> code replay),         *)
(*   - MockSeqTrace (recorded sequential traces, code -> spec),              *)
(*   - MockLin      (concurrent histories, linearizability),                 *)
(*   - MockImpl     (the template's algorithm, refinement)                   *)
(* all share one definition of "correct".                                    *)
(*                                                                           *)
(* A state S is a record [rec, nextId]:                                      *)
(*   rec[m]  - the ids of the calls of m recorded since creation / the last  *)
(*             reset of m, in call order (ids stand for argument tuples)     *)
(*   nextId  - ids are handed out in invocation order                        *)
EXTENDS Naturals, Sequences, FiniteSets

CONSTANTS Methods,     \* set of method names of the mocked interface
          Stub,        \* generated with -stub
          WithResets   \* generated with -with-resets

EmptyRec == [m \in Methods |-> <<>>]
InitS    == [rec |-> EmptyRec, nextId |-> 1]

Record(S, m)   == [rec |-> [S.rec EXCEPT ![m] = Append(@, S.nextId)], nextId |-> S.nextId + 1]
SkipId(S)      == [S EXCEPT !.nextId = @ + 1]
ResetOne(S, m) == [S EXCEPT !.rec[m] = <<>>]
ResetEvery(S)  == [S EXCEPT !.rec = EmptyRec]

(* What the configured function of a method does when it is invoked.        *)
(*   <<"nil">>        field is nil                                           *)
(*   <<"ret">>        returns fresh results                                  *)
(*   <<"panic">>      panics with a token                                    *)
(*   <<"call", m2>>   calls method m2 of the same mock (whose function just  *)
(*                    returns) and then returns -- m2 = m is recursion       *)
(*   <<"reset", m2>>  calls ResetM2Calls() and returns                       *)
(*   <<"resetall">>   calls ResetCalls() and returns                         *)
(* Every non-nil function first reads all MCalls() ("seen").                 *)
ModesFor(resets) ==
    {<<"nil">>, <<"ret">>, <<"panic">>} \cup {<<"call", m>> : m \in Methods}
      \cup (IF resets THEN {<<"resetall">>} \cup {<<"reset", m>> : m \in Methods} ELSE {})
AllModes == ModesFor(WithResets)

NoObs == [m \in Methods |-> <<>>]
Only(m, id) == [x \in Methods |-> IF x = m THEN <<id>> ELSE <<>>]

(* Effect and required observation of one call of m under function `mode`.  *)
(* nilRec: whether a default-mode call of a nil function leaves a record;    *)
(* the properties leave that open, but a mock must be consistent about it.   *)
(*                                                                           *)
(* Observation fields (all compared with the real mock):                     *)
(*   id        the call's id (its argument tuple)                            *)
(*   outcome   "ret" | "panic" | "nilpanic" | "zero"                         *)
(*   delegated for every method x the ids with which x's function was        *)
(*             invoked during this call (C03: this method's exactly once,    *)
(*             same arguments, no other function; C07: none when nil)        *)
(*   seen      all lists as visible at function entry (C04: already          *)
(*             recorded)                                                     *)
(*   id2/seen2 the nested call's id and what its function saw                *)
CallEffect(S, m, mode, nilRec) ==
    LET id == S.nextId IN
    IF mode[1] = "nil" THEN
        IF Stub
        THEN [S |-> Record(S, m),
              obs |-> [id |-> id, outcome |-> "zero", delegated |-> NoObs, seen |-> NoObs, id2 |-> 0, seen2 |-> NoObs]]
        ELSE [S |-> IF nilRec THEN Record(S, m) ELSE SkipId(S),
              obs |-> [id |-> id, outcome |-> "nilpanic", delegated |-> NoObs, seen |-> NoObs, id2 |-> 0, seen2 |-> NoObs]]
    ELSE
        LET S1 == Record(S, m) IN
        CASE mode[1] = "ret" ->
               [S |-> S1, obs |-> [id |-> id, outcome |-> "ret", delegated |-> Only(m, id), seen |-> S1.rec, id2 |-> 0, seen2 |-> NoObs]]
          [] mode[1] = "panic" ->
               [S |-> S1, obs |-> [id |-> id, outcome |-> "panic", delegated |-> Only(m, id), seen |-> S1.rec, id2 |-> 0, seen2 |-> NoObs]]
          [] mode[1] = "call" ->
               LET S2 == Record(S1, mode[2]) IN
               [S |-> S2, obs |-> [id |-> id, outcome |-> "ret",
                                   delegated |-> [x \in Methods |-> (IF x = m THEN <<id>> ELSE <<>>) \o (IF x = mode[2] THEN <<S1.nextId>> ELSE <<>>)],
                                   seen |-> S1.rec, id2 |-> S1.nextId, seen2 |-> S2.rec]]
          [] mode[1] = "reset" ->
               [S |-> ResetOne(S1, mode[2]), obs |-> [id |-> id, outcome |-> "ret", delegated |-> Only(m, id), seen |-> S1.rec, id2 |-> 0, seen2 |-> NoObs]]
          [] mode[1] = "resetall" ->
               [S |-> ResetEvery(S1), obs |-> [id |-> id, outcome |-> "ret", delegated |-> Only(m, id), seen |-> S1.rec, id2 |-> 0, seen2 |-> NoObs]]

(* Requirement predicates over a whole state, used as invariants wherever a  *)
(* state of this shape exists.                                               *)
IdsDistinct(S) ==
    \A m1, m2 \in Methods : \A i \in DOMAIN S.rec[m1], j \in DOMAIN S.rec[m2] :
        (S.rec[m1][i] = S.rec[m2][j]) => (m1 = m2 /\ i = j)
IdsIncreasing(S) ==
    \A m \in Methods : \A i, j \in DOMAIN S.rec[m] : i < j => S.rec[m][i] < S.rec[m][j]
IdsKnown(S) == \A m \in Methods : \A i \in DOMAIN S.rec[m] : S.rec[m][i] < S.nextId
=============================================================================
