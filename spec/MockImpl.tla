----------------------------- MODULE MockImpl -----------------------------
(* The algorithm of the generated mock, as written in moq's template         *)
(* (internal/template/template.go:112-215), at the granularity at which the  *)
(* conformance harness observes real mocks: every synchronisation operation, *)
(* every access to the call records and every operation start is one step.   *)
(*                                                                           *)
(* A scenario gives every goroutine a program of top-level operations; a     *)
(* configured function (callback) may itself operate on the mock.  Because   *)
(* callbacks are bounded and deterministic, each operation expands into a    *)
(* straight line of micro-operations ("gates"), in template order:           *)
(*                                                                           *)
(*   M(args):   [nil check] LA(m) LQ(m) RD(m) WR(m,id) UL(m) [callback ...]  *)
(*   MCalls():  RL(m) SNAP(m) RUL(m)                                         *)
(*   ResetMCalls(): LA(m) LQ(m) CLR(m) UL(m)                                 *)
(*   ResetCalls():  the same four for every method, in method order,         *)
(*                  never nested                                             *)
(*                                                                           *)
(* sync.RWMutex is modelled as implemented: Lock first excludes other        *)
(* writers and announces itself (LA; from then on new readers block), then   *)
(* waits for the active readers to drain (LQ).  The append is two steps, a   *)
(* read of the slice (RD) and the write back (WR): that is where an update   *)
(* would be lost if the lock discipline were wrong.                          *)
(*                                                                           *)
(* The same scenarios are run on real generated mocks under a controlled     *)
(* scheduler; the set of abstract states reached there must equal the set    *)
(* TLC reaches here (two-way conformance), and the properties below are      *)
(* checked on every state of the model.                                      *)
EXTENDS Naturals, Sequences, FiniteSets, TLC, Json

CONSTANTS Methods,      \* the methods in play, e.g. {"A", "B"}
          MethodOrder,  \* the same as a sequence: ResetCalls() walks it
          Stub,         \* -stub
          Progs,        \* Progs[g] = sequence of operations of goroutine g
          EmitStates    \* print every reachable state (conformance input)

G == 1..Len(Progs)

(* ---- expansion of operations into micro-operations ---------------------- *)
Mi(k, m, id, cb) == [k |-> k, m |-> m, id |-> id, cb |-> cb]

AppendSeq(m, id, cb) == <<Mi("LA", m, 0, cb), Mi("LQ", m, 0, cb), Mi("RD", m, 0, cb), Mi("WR", m, id, cb), Mi("UL", m, 0, cb)>>
SnapSeq(m, cb)       == <<Mi("RL", m, 0, cb), Mi("SNAP", m, 0, cb), Mi("RUL", m, 0, cb)>>
ResetSeq(m, cb)      == <<Mi("LA", m, 0, cb), Mi("LQ", m, 0, cb), Mi("CLR", m, 0, cb), Mi("UL", m, 0, cb)>>

RECURSIVE ResetAllSeq(_, _)
ResetAllSeq(ms, cb) == IF ms = <<>> THEN <<>> ELSE ResetSeq(Head(ms), cb) \o ResetAllSeq(Tail(ms), cb)

(* what the configured function does, as micro-operations (cb = TRUE) *)
Callback(c, id2) ==
    CASE c[1] = "calls"    -> SnapSeq(c[2], TRUE)
      [] c[1] = "call"     -> AppendSeq(c[2], id2, TRUE)
      [] c[1] = "reset"    -> ResetSeq(c[2], TRUE)
      [] c[1] = "resetall" -> ResetAllSeq(MethodOrder, TRUE)
      [] c[1] = "wait"     -> <<[k |-> "WAIT", m |-> c[2], id |-> 0, cb |-> TRUE]>>
      [] OTHER             -> <<>>          \* "ret", "panic": no step on the mock

Expand(g, i, op) ==
    LET id == g * 100 + (i - 1) * 10 IN
    <<Mi("INV", IF op.op = "setflag" THEN op.flag ELSE "", 0, FALSE)>> \o
    CASE op.op = "call" ->
           IF op.cb[1] = "nil"
           THEN IF Stub THEN AppendSeq(op.m, id, FALSE)     \* recorded, zero values returned
                        ELSE <<>>                            \* panics before anything else
           ELSE AppendSeq(op.m, id, FALSE) \o Callback(op.cb, id + 1)
      [] op.op = "calls"    -> SnapSeq(op.m, FALSE)
      [] op.op = "reset"    -> ResetSeq(op.m, FALSE)
      [] op.op = "resetall" -> ResetAllSeq(MethodOrder, FALSE)
      [] op.op = "setflag"  -> <<>>

RECURSIVE FlatFrom(_, _)
FlatFrom(g, i) == IF i > Len(Progs[g]) THEN <<>> ELSE Expand(g, i, Progs[g][i]) \o FlatFrom(g, i + 1)
Flat == [g \in G |-> <<Mi("START", "", 0, FALSE)>> \o FlatFrom(g, 1)]

(* ---- state --------------------------------------------------------------- *)
VARIABLES calls,   \* calls[m]: the recorded ids (mock.calls.M)
          lkW,     \* lkW[m]: goroutine holding the write lock of lockM, 0 = none
          lkA,     \* lkA[m]: goroutine that has announced a Lock (excludes other writers, blocks new readers)
          lkR,     \* lkR[m][g]: read locks held
          pos,     \* pos[g]: index of the next micro-operation of g
          tmp,     \* tmp[g]: the slice value read by RD, to be written back by WR
          flags    \* flags raised by setflag operations

vars == <<calls, lkW, lkA, lkR, pos, tmp, flags>>

Init == /\ calls = [m \in Methods |-> <<>>]
        /\ lkW = [m \in Methods |-> 0] /\ lkA = [m \in Methods |-> 0]
        /\ lkR = [m \in Methods |-> [g \in G |-> 0]]
        /\ pos = [g \in G |-> 1]
        /\ tmp = [g \in G |-> <<>>]
        /\ flags = {}

Done(g) == pos[g] > Len(Flat[g])
Cur(g)  == Flat[g][pos[g]]
Readers(m) == {g \in G : lkR[m][g] > 0}

Enabled(g) ==
    /\ ~Done(g)
    /\ LET o == Cur(g) IN
       CASE o.k = "LA"   -> lkA[o.m] = 0
         [] o.k = "LQ"   -> Readers(o.m) = {} /\ lkW[o.m] = 0
         [] o.k = "RL"   -> lkA[o.m] = 0
         [] o.k = "WAIT" -> o.m \in flags
         [] OTHER        -> TRUE

Step(g) ==
    /\ Enabled(g)
    /\ LET o == Cur(g) IN
       /\ pos' = [pos EXCEPT ![g] = @ + 1]
       /\ calls' = CASE o.k = "WR"  -> [calls EXCEPT ![o.m] = Append(tmp[g], o.id)]
                     [] o.k = "CLR" -> [calls EXCEPT ![o.m] = <<>>]
                     [] OTHER       -> calls
       /\ tmp' = IF o.k = "RD" THEN [tmp EXCEPT ![g] = calls[o.m]] ELSE tmp
       /\ lkA' = CASE o.k = "LA" -> [lkA EXCEPT ![o.m] = g]
                   [] o.k = "UL" -> [lkA EXCEPT ![o.m] = 0]
                   [] OTHER      -> lkA
       /\ lkW' = CASE o.k = "LQ" -> [lkW EXCEPT ![o.m] = g]
                   [] o.k = "UL" -> [lkW EXCEPT ![o.m] = 0]
                   [] OTHER      -> lkW
       /\ lkR' = CASE o.k = "RL"  -> [lkR EXCEPT ![o.m][g] = @ + 1]
                   [] o.k = "RUL" -> [lkR EXCEPT ![o.m][g] = @ - 1]
                   [] OTHER       -> lkR
       /\ flags' = IF o.k = "INV" /\ o.m # "" THEN flags \cup {o.m} ELSE flags
       \* conformance input: every transition, as (state, goroutine, successor state)
       /\ EmitStates => PrintT("EDGE " \o ToJson([g |-> g,
                 from |-> [calls |-> calls, w |-> lkW, a |-> lkA, r |-> lkR, pos |-> pos, flags |-> flags],
                 to   |-> [calls |-> calls', w |-> lkW', a |-> lkA', r |-> lkR', pos |-> pos', flags |-> flags']]))

AllDone == \A g \in G : Done(g)
Next == (\E g \in G : Step(g)) \/ (AllDone /\ UNCHANGED vars)

Spec     == Init /\ [][Next]_vars
FairSpec == Spec /\ \A g \in G : WF_vars(Step(g))

(* ---- properties ----------------------------------------------------------- *)
Held(g) == {m \in Methods : lkW[m] = g \/ lkA[m] = g \/ lkR[m][g] > 0}

(* RWMutex well-formedness *)
LockOK == \A m \in Methods :
            /\ lkW[m] # 0 => (Readers(m) = {} /\ lkA[m] = lkW[m])
            /\ \A g \in G : (~Done(g) /\ Cur(g).k = "UL" /\ Cur(g).m = m) => lkW[m] = g
            /\ \A g \in G : (~Done(g) /\ Cur(g).k = "RUL" /\ Cur(g).m = m) => lkR[m][g] > 0

(* C05: no lost update -- what WR writes back extends the current list *)
NoLostUpdate == \A g \in G : (~Done(g) /\ Cur(g).k = "WR") => tmp[g] = calls[Cur(g).m]

(* C05: data-race freedom -- never two goroutines poised at conflicting accesses *)
Access(g) == IF Done(g) THEN "" ELSE
             CASE Cur(g).k \in {"RD", "SNAP"} -> "r" [] Cur(g).k \in {"WR", "CLR"} -> "w" [] OTHER -> ""
RaceFree == \A g1, g2 \in G :
              (g1 # g2 /\ Access(g1) # "" /\ Access(g2) # "" /\ Cur(g1).m = Cur(g2).m)
                 => (Access(g1) = "r" /\ Access(g2) = "r")

(* C06: no lock of the mock is held when user code starts or while it is    *)
(* parked, nor between operations                                           *)
AtUserCode(g) == \/ Done(g)
                 \/ Cur(g).k \in {"INV", "START", "WAIT"}
                 \/ (Cur(g).cb /\ pos[g] > 1 /\ ~Flat[g][pos[g] - 1].cb)   \* first step of the callback
NoLockInCallback == \A g \in G : AtUserCode(g) => Held(g) = {}

(* C04/C05: each list only grows by appends at its end, or is emptied *)
AppendOnly == [][\A m \in Methods :
                    \/ calls'[m] = calls[m] \/ calls'[m] = <<>>
                    \/ (Len(calls'[m]) = Len(calls[m]) + 1 /\ SubSeq(calls'[m], 1, Len(calls[m])) = calls[m])]_vars

(* C05: no record is duplicated *)
NoDuplicate == \A m \in Methods : \A i, j \in DOMAIN calls[m] : i # j => calls[m][i] # calls[m][j]

(* C06: every schedule terminates (no deadlock, no livelock) *)
Terminates == <>AllDone

(* conformance input: the projection the harness also computes on real mocks *)
Emit == EmitStates =>
          PrintT("STATE " \o ToJson([calls |-> calls, w |-> lkW, a |-> lkA, r |-> lkR, pos |-> pos, flags |-> flags]))
=============================================================================
