------------------------- MODULE MockImplMC_example -------------------------
(* A hand-runnable instance of MockImpl: two goroutines, the re-entrant       *)
(* callback scenario.  `tlc -config MockImplMC_example.cfg MockImplMC_example` *)
(* The harness generates modules of this shape for every scenario            *)
(* (internal/rt/implcheck.go).                                               *)
EXTENDS MockImpl
ProgsDef == << <<[op |-> "call", m |-> "A", cb |-> <<"calls", "A">>, flag |-> ""]>>,
               <<[op |-> "call", m |-> "A", cb |-> <<"ret">>, flag |-> ""], [op |-> "reset", m |-> "A", cb |-> <<"-">>, flag |-> ""]>> >>
OrderDef == <<"A">>
=============================================================================
