\* with the injected write failure after the truncating open: TLC reports the
\* violation of AllOrNothing that is recorded as known finding KF-10
SPECIFICATION FairSpec
CONSTANTS
  EmitJson = FALSE
  AllowTruncFault = TRUE
INVARIANTS AllOrNothing SuccessComplete InfoTouchesNothing OnlyOutTouched ExitsCleanly RmMakesPriorIrrelevant
PROPERTIES Terminates
