SPECIFICATION Spec
CONSTANTS
  Methods = {"A", "B"}
  Stub = FALSE
  WithResets = TRUE
  MaxLen = 2
  EmitJson = TRUE
INVARIANTS TypeOK Emit
PROPERTIES AppendOnly ResetIsolated
