SPECIFICATION FairSpec
CONSTANTS
  Methods = {"A"}
  MethodOrder <- OrderDef
  Stub = FALSE
  Progs <- ProgsDef
  EmitStates = FALSE
INVARIANTS LockOK NoLostUpdate RaceFree NoLockInCallback NoDuplicate
PROPERTIES AppendOnly Terminates
CHECK_DEADLOCK TRUE
