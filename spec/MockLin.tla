------------------------------ MODULE MockLin ------------------------------
(* Code -> spec for concurrent use (C05, and the progress part of C06):      *)
(* every distinct history observed while the controlled scheduler drives a   *)
(* real generated mock through all schedules of a scenario must be           *)
(* linearizable with respect to the requirement object of MockAbs -- one     *)
(* atomic append-only list per method.                                       *)
(*                                                                           *)
(* A history is a set of atomic operations with real-time intervals          *)
(* [inv, res] (ranks of scheduler sequence numbers):                         *)
(*   append(m, id)  a call of m; its interval ends where the configured      *)
(*                  function starts to run (C04: recorded before MFunc) or   *)
(*                  at the call's return if no function runs                 *)
(*   snap(m) = ret  MCalls() returned the ids ret                            *)
(*   reset(m)       ResetMCalls()                                            *)
(*   resetall       ResetCalls(): every method reset once somewhere inside   *)
(*                  the interval (atomicity across methods is not promised)  *)
(* plus one final snap per method after quiescence.  From linearizability    *)
(* follow: no lost, duplicated or torn record, per-goroutine program order,  *)
(* snapshots are prefixes of later ones between resets, quiescent count.     *)
(*                                                                           *)
(* Each history is an independent initial state; a history is accepted iff   *)
(* some interleaving of linearization points consumes all its events.        *)
EXTENDS Naturals, Sequences, FiniteSets, TLC, Json

CONSTANTS HistFile, Methods

Hist == ndJsonDeserialize(HistFile)

VARIABLES h,      \* index of the history under test
          t,      \* next point of time (1 .. 2n)
          rec,    \* abstract lists
          open,   \* invoked operations
          lin,    \* linearized operations
          rdone   \* resetall progress: op index -> methods already reset

vars == <<h, t, rec, open, lin, rdone>>

Ops(i)  == Hist[i].ops
N(i)    == Len(Ops(i))
End(i)  == 2 * N(i) + 1

Init == /\ h \in 1..Len(Hist)
        /\ t = 1
        /\ rec = [m \in Methods |-> <<>>]
        /\ open = {} /\ lin = {}
        /\ rdone = [i \in 1..N(h) |-> {}]

InvAt(k) == {i \in 1..N(h) : Ops(h)[i].inv = k}
ResAt(k) == {i \in 1..N(h) : Ops(h)[i].res = k}

Advance ==
    /\ t < End(h)
    /\ \/ \E i \in InvAt(t) : open' = open \cup {i}
       \/ \E i \in ResAt(t) : i \in lin /\ open' = open
    /\ t' = t + 1
    /\ UNCHANGED <<h, rec, lin, rdone>>

Lin(i) ==
    /\ i \in open \ lin
    /\ LET o == Ops(h)[i] IN
       CASE o.k = "append" -> /\ rec' = [rec EXCEPT ![o.m] = Append(@, o.id)]
                              /\ lin' = lin \cup {i} /\ UNCHANGED rdone
         [] o.k = "snap"   -> /\ rec[o.m] = o.ret
                              /\ lin' = lin \cup {i} /\ UNCHANGED <<rec, rdone>>
         [] o.k = "reset"  -> /\ rec' = [rec EXCEPT ![o.m] = <<>>]
                              /\ lin' = lin \cup {i} /\ UNCHANGED rdone
         [] o.k = "resetall" ->
              \E m \in Methods \ rdone[i] :
                 /\ rec' = [rec EXCEPT ![m] = <<>>]
                 /\ rdone' = [rdone EXCEPT ![i] = @ \cup {m}]
                 /\ lin' = IF rdone'[i] = Methods THEN lin \cup {i} ELSE lin
    /\ UNCHANGED <<h, t, open>>

Next == Advance \/ \E i \in open : Lin(i)

Spec == Init /\ [][Next]_vars

Accepted == (t = End(h)) => PrintT("LIN-OK " \o ToString(h))
Loaded   == (t = 1 /\ h = 1) => PrintT("LIN-N " \o ToString(Len(Hist)))
=============================================================================
