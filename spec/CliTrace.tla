------------------------------ MODULE CliTrace ------------------------------
(* Code -> spec for the command line (C15, C17, C18, C19).  Every record is   *)
(* one real run of the moq binary built from the tree under test, in a       *)
(* scratch module, under strace: the scenario (what was at the -out path,    *)
(* flags, arguments, injected fault), what spec/Cli.tla predicts for it, and  *)
(* what was observed (exit status, stdout/stderr, the -out path before and   *)
(* after, a recursive snapshot diff of the whole tree, and from the system   *)
(* call log: order of unlink and package load, truncating opens, writes      *)
(* carrying generated source).  The requirement predicates are evaluated on  *)
(* the observation; a difference to the model's prediction that breaks no    *)
(* requirement is reported as drift only.                                    *)
EXTENDS Integers, Sequences, FiniteSets, TLC, Json

CONSTANT TraceFile
Trace == ndJsonDeserialize(TraceFile)

VARIABLES l, fails
vars == <<l, fails>>

Informational(sc) == sc.flag \in {"version", "help"}   \* -version, -h: print and exit 0, nothing else
PriorIsFile(sc) == sc.prior \in {"own", "ownnoop", "ownlong", "ownstub", "owncase", "older", "garbage", "empty", "danglink"}

(* C17 *)
FailureWritesNothing(r) == LET o == r.obs sc == r.sc IN
    (o.exit # 0) =>
        /\ o.stderrLen > 0
        /\ ~o.stdoutHasSource
        /\ \/ PriorIsFile(sc) /\ o.outKind = "file" /\ o.outSame
           \/ PriorIsFile(sc) /\ sc.rm /\ o.outKind = "absent"
           \/ sc.prior = "dir" /\ o.outKind = "dir"
           \/ sc.prior \in {"absent", "parentfile"} /\ o.outKind = "absent"
InfoOnly(r) == LET o == r.obs sc == r.sc IN
    Informational(sc) =>
        /\ o.exit = 0 /\ o.stdoutLen > 0 /\ ~o.stdoutHasSource
        /\ IF PriorIsFile(sc) THEN o.outKind = "file" /\ o.outSame ELSE o.outKind = "absent"
        /\ o.straceOK => o.srcWrites = 0
SuccessComplete(r) == LET o == r.obs sc == r.sc IN
    (o.exit = 0 /\ ~Informational(sc)) =>
        /\ (sc.out = "stdout") => (o.stdoutEqualsRef /\ o.outKind = "absent")
        /\ (sc.out # "stdout") => (o.outKind = "file" /\ o.outEqualsRef /\ ~o.stdoutHasSource)
        \* written once: one write carries the generated source (to -out, to fd 1, or to a
        \* temporary that is renamed onto -out); -out is truncated at most once
        /\ o.straceOK => (o.srcWrites = 1 /\ o.truncOpens <= 1)
(* the failures C17 names, where the scenario contains one by construction   *)
(* and whatever stands at -out plays no part in it: an unknown type or a      *)
(* non-interface in the argument list, a package that cannot be loaded, a    *)
(* mock name go/format rejects, a destination that cannot be written          *)
MustFail(sc) ==
    /\ ~Informational(sc)
    /\ \/ sc.flag = "bad"
       \/ sc.args \in {"none", "one", "missing1", "missing2", "notiface2", "badalias", "dup", "flagslast"}
       \/ sc.mod # "tidy"
       \/ sc.prior \in {"parentfile", "dir"}
       \/ sc.fault # "none"
FailsWhenItMust(r) == MustFail(r.sc) => r.obs.exit # 0
C17(r) == FailureWritesNothing(r) /\ SuccessComplete(r) /\ InfoOnly(r) /\ FailsWhenItMust(r)

(* C18 *)
C18(r) == r.obs.otherChanged = <<>> /\ (r.obs.straceOK => r.obs.foreignWrites = <<>>)

(* C19 *)
C19(r) == LET o == r.obs IN
    /\ ~o.timedOut /\ ~o.crashText
    /\ o.exit >= 0
    /\ (o.exit # 0) => o.stderrLen > 0
    \* exit 0 means output was produced
    /\ (o.exit = 0 /\ r.sc.out = "stdout" /\ ~Informational(r.sc)) => o.stdoutHasSource
    /\ (o.exit = 0 /\ r.sc.out # "stdout" /\ ~Informational(r.sc)) => (o.outKind = "file" /\ o.outHasSource)
    /\ Informational(r.sc) => (o.exit = 0 /\ o.stdoutLen > 0)
    /\ (r.sc.flag = "bad") => (o.exit # 0 /\ o.stderrNamesArg)      \* the diagnostic names the undefined flag
    \* where the lookup of an argument is what fails (per spec/Cli.tla), the diagnostic names that argument
    /\ (o.exit # 0 /\ r.pred.stderr \in {"notfound", "notiface", "dupname"}) => o.stderrNamesArg

(* C15 *)
C15(r) == LET o == r.obs sc == r.sc IN
    /\ (sc.prior = "own" /\ ~sc.rm /\ sc.out = "file" /\ o.exit = 0 /\ sc.args = "ok" /\ ~sc.stub) => o.outSame           \* own output is a fixed point
    /\ o.secondRan => o.secondSame     \* whatever was there before: what moq just wrote, left in place, is reproduced by the same command
    /\ (sc.rm /\ sc.out \in {"file", "otherpkg"} /\ PriorIsFile(sc) /\ sc.fault = "none" /\ sc.args \in {"ok", "ok2", "okalias"} /\ sc.flag = "none")
          => (o.exit = 0 /\ o.outEqualsRef /\ (o.straceOK => o.unlinkBeforeLoad))            \* -rm: prior content irrelevant

(* C16 at the command line: whatever layout the previous file had, a run    *)
(* with the default formatter leaves exactly the canonical output            *)
C16(r) == (r.sc.prior = "ownnoop" /\ r.sc.out = "file" /\ r.obs.exit = 0 /\ r.sc.flag = "none") => r.obs.outEqualsRef

(* C07 at the command line: -stub (or its absence) is honoured whatever an    *)
(* earlier run with the other setting, or for an older source, left at -out  *)
C07(r) == ((r.sc.prior = "ownstub" \/ r.sc.stub) /\ r.sc.out # "stdout" /\ r.obs.exit = 0 /\ r.sc.flag = "none") => r.obs.outEqualsRef

(* C14 at the command line: the same command gives the same bytes whatever   *)
(* an earlier generation left at -out                                        *)
C14(r) == (r.sc.prior \in {"own", "ownnoop", "ownlong", "ownstub", "owncase"} /\ r.sc.out # "stdout" /\ r.obs.exit = 0 /\ r.sc.flag = "none") => r.obs.outEqualsRef

(* C03, C04, C08 at the command line: the run-time properties are shown for  *)
(* the mock a command generates; after a successful run the file at -out is  *)
(* that mock, whatever an earlier run with other flags or an older source    *)
(* left there                                                                *)
Current(r) == (PriorIsFile(r.sc) /\ r.sc.out # "stdout" /\ r.obs.exit = 0 /\ r.sc.flag = "none") => r.obs.outEqualsRef

(* conformance with the prediction of spec/Cli.tla *)
Conforms(r) == LET o == r.obs p == r.pred IN
    /\ o.exit = p.exit
    /\ (p.outSt = "new") <=> (o.exit = 0 /\ r.sc.out # "stdout" /\ ~Informational(r.sc))
    /\ (p.srcOnStdout = "full") <=> (o.exit = 0 /\ r.sc.out = "stdout" /\ ~Informational(r.sc))
    /\ p.version <=> o.versionPrinted
    \* a scenario built to fail for a particular reason fails for that reason (otherwise it shows nothing)
    /\ (o.exit # 0 /\ r.sc.mod # "tidy") => o.causeSeen

Check(name, ok) == IF ok THEN {} ELSE {name}
Verdict(r) == Check("C03", Current(r)) \cup Check("C04", Current(r)) \cup Check("C08", Current(r)) \cup Check("C07", C07(r)) \cup Check("C14", C14(r)) \cup Check("C15", C15(r)) \cup Check("C16", C16(r)) \cup Check("C17", C17(r)) \cup Check("C18", C18(r)) \cup Check("C19", C19(r))
              \cup Check("drift", Conforms(r))

Init == l = 1 /\ fails = {}
Step == /\ l <= Len(Trace) /\ l' = l + 1
        /\ fails' = fails \cup {<<Trace[l].case, p>> : p \in Verdict(Trace[l])}
Spec == Init /\ [][Step]_vars
Done == (l = Len(Trace) + 1) =>
          /\ PrintT("CLI-LINES " \o ToString(Len(Trace)))
          /\ \A f \in fails : PrintT("CLI-FAIL " \o ToJson(f))
=============================================================================
