------------------------------- MODULE Scope -------------------------------
(* moq's per-method variable scope (internal/registry/method_scope.go,       *)
(* var.go) together with the import registry it feeds, as written:           *)
(*                                                                           *)
(*   AddVar(v, suffix):                                                      *)
(*     1. walk v's type, AddImport every package met (Registry), remember    *)
(*        them as this variable's import set                                 *)
(*     2. resolveImportVarConflicts: every earlier variable whose name       *)
(*        equals the qualifier of one of those imports gets "MoqParam"       *)
(*     3. name := declared name + suffix, or the default name of the type    *)
(*        (+ suffix, + "MoqParam" if reserved)                               *)
(*     4. name equals some import's qualifier -> name += "MoqParam"          *)
(*     5. name taken by a variable, or marked conflicted ->                  *)
(*        resolveVarNameConflict: smallest number free among variables and   *)
(*        import qualifiers; the first clash moves the earlier variable to   *)
(*        <name>1 if it still carries the bare name (before the fixes        *)
(*        recorded as KF-07/KF-08 this step could crash or hand out a taken  *)
(*        <name>2; the field "crashed" is kept for the trace format)         *)
(*                                                                           *)
(* Function-style model: the result of a method is the SET of possible       *)
(* outcomes (registry map-order choices), each with the final variable       *)
(* names, or a crash.                                                        *)
EXTENDS Registry, MoqNames

MoqParam == "MoqParam"

(* state of one method scope: names of the variables so far, conflicted stems *)
EmptyScope == [names |-> <<>>, conflicted |-> {}, crashed |-> FALSE]

HasVar(sc, n) == \E i \in DOMAIN sc.names : sc.names[i] = n
FirstVar(sc, n) == CHOOSE i \in DOMAIN sc.names : sc.names[i] = n /\ \A j \in DOMAIN sc.names : sc.names[j] = n => i <= j

(* smallest k' >= k such that neither a variable nor an import qualifier is *)
(* called stem+k'                                                            *)
IsQual(reg, n) == \E p \in DOMAIN reg.imp : Qual(reg.imp[p]) = n
RECURSIVE FreeNum(_, _, _, _)
FreeNum(sc, reg, stem, k) ==
    IF HasVar(sc, stem \o ToString(k)) \/ IsQual(reg, stem \o ToString(k)) THEN FreeNum(sc, reg, stem, k + 1) ELSE k

(* The loop of resolveVarNameConflict: candidates stem+1, stem+2, ... are    *)
(* skipped while taken; if the first free candidate is stem+1 and a variable *)
(* still carries the bare stem, that variable moves to stem+1 (the stem is   *)
(* then "conflicted") and the search goes on for the new variable.           *)
ResolveVarNameConflict(sc, reg, stem) ==
    LET k == FreeNum(sc, reg, stem, 1) IN
    IF k = 1 /\ HasVar(sc, stem)
    THEN LET sc1 == [sc EXCEPT !.names[FirstVar(sc, stem)] = stem \o "1", !.conflicted = @ \cup {stem}]
         IN [sc |-> sc1, name |-> stem \o ToString(FreeNum(sc1, reg, stem, 2))]
    ELSE [sc |-> sc, name |-> stem \o ToString(k)]

(* steps 2-5 for one variable, given the registry after step 1 and the       *)
(* qualifiers of the variable's own imports (any order: they are renamed     *)
(* independently; the first matching variable is renamed per import)         *)
RECURSIVE RenameShadowed(_, _)
RenameShadowed(sc, quals) ==
    IF quals = {} THEN sc
    ELSE LET q == CHOOSE x \in quals : TRUE
             sc1 == IF HasVar(sc, q) THEN [sc EXCEPT !.names[FirstVar(sc, q)] = q \o MoqParam] ELSE sc
         IN RenameShadowed(sc1, quals \ {q})

SuggestName(v) ==
    IF v.nameCs # <<>> /\ v.nameCs # <<"_">>
    THEN Join(v.nameCs) \o v.suffix
    ELSE LET n == Join(VarNameR(v.t, TRUE)) \o v.suffix IN   \* as written, see MoqNames!BasicNameR
         IF n \in ReservedDefaults THEN n \o MoqParam ELSE n

AddVarNames(sc, reg, v, ownQuals) ==
    IF sc.crashed THEN sc
    ELSE LET sc1 == RenameShadowed(sc, ownQuals)
             n0  == SuggestName(v)
             n1  == IF \E p \in DOMAIN reg.imp : Qual(reg.imp[p]) = n0 THEN n0 \o MoqParam ELSE n0
         IN IF HasVar(sc1, n1) \/ n1 \in sc1.conflicted
            THEN LET r == ResolveVarNameConflict(sc1, reg, n1) IN
                 IF r.sc.crashed THEN r.sc ELSE [r.sc EXCEPT !.names = Append(@, r.name)]
            ELSE [sc1 EXCEPT !.names = Append(@, n1)]

(* one variable: v.pkgs = the packages its type mentions, in walk order     *)
(* outcome set element: [reg, sc]                                            *)
AddVar(out, v, moqPath) ==
    IF ~out.reg.ok \/ out.sc.crashed THEN {out}
    ELSE { IF ~r.ok THEN [reg |-> r, sc |-> out.sc]
           ELSE LET own == {Qual(r.imp[v.pkgs[i].path]) : i \in {j \in DOMAIN v.pkgs : v.pkgs[j].path \in DOMAIN r.imp}}
                IN [reg |-> r, sc |-> AddVarNames(out.sc, r, v, own)]
           : r \in AddAll({out.reg}, v.pkgs, moqPath) }

RECURSIVE AddVars(_, _, _)
AddVars(outs, vs, moqPath) ==
    IF vs = <<>> THEN outs
    ELSE AddVars(UNION { AddVar(o, Head(vs), moqPath) : o \in outs }, Tail(vs), moqPath)

(* a whole method: fresh scope, parameters then results *)
Method(regs, vars, moqPath) ==
    AddVars({[reg |-> r, sc |-> EmptyScope] : r \in regs}, vars, moqPath)
=============================================================================
