----------------------------- MODULE GenPredict -----------------------------
(* Runs the implementation-shaped models (Registry + Scope) on the abstract  *)
(* inputs of generator cases, in the order Mocker.Mock processes them: for   *)
(* every requested interface its type-parameter scope, then one scope per    *)
(* method (parameters, then results with suffix "Out"); at the end the sync  *)
(* and source-package imports.  One registry lives through the whole case.   *)
(* Prints per case what the algorithm AS WRITTEN can do:                     *)
(*   diverge   the alias recursion never returns            (C19 shape)      *)
(*   crash     resolveVarNameConflict dereferences nil      (C19 shape)      *)
(*   dup       two imports end with one qualifier           (C11 shape)      *)
(*   nameDup   two variables of a method end with one name  (C12 shape)      *)
(*   fieldDup  two variables end with one record field name (C12 shape)      *)
(*   nfinals   number of distinct outcomes over map-order choices (C14)      *)
(*   finals    the possible final (path, qualifier) sets                     *)
(*   names     per scope, the possible final name lists                      *)
(* The harness uses it to recognise known-finding shapes independently of    *)
(* the code under test, to aim C14's repetitions, and to report SPEC-DRIFT   *)
(* where real moq chose something the model does not predict.                *)
EXTENDS Scope, Json

CONSTANT CaseFile
Cases == ndJsonDeserialize(CaseFile)

VARIABLE l

(* thread the set of possible registries through the scopes, collecting per *)
(* scope the set of possible final scopes                                    *)
RECURSIVE Run(_, _, _, _)
Run(regs, scopes, moqPath, acc) ==
    IF scopes = <<>> THEN [regs |-> regs, acc |-> acc]
    ELSE LET outs == Method(regs, Head(scopes), moqPath) IN
         Run({o.reg : o \in outs}, Tail(scopes), moqPath, Append(acc, {o.sc : o \in outs}))

HasDupSeq(s) == \E i, j \in DOMAIN s : i # j /\ s[i] = s[j]
Fields(names) == [i \in DOMAIN names |-> names[i]]

Init == l = 1
Step == /\ l <= Len(Cases)
        /\ LET c == Cases[l]
               r == Run({EmptyReg}, c.scopes, c.moqPath, <<>>)
               F == AddAll(r.regs, c.tail, c.moqPath)
               scs == UNION {r.acc[i] : i \in DOMAIN r.acc}
           IN PrintT("PREDICT " \o ToJson([case |-> c.case,
                    diverge |-> CanDiverge(F), dup |-> CanDuplicate(F),
                    crash |-> \E sc \in scs : sc.crashed,
                    nameDup |-> \E sc \in scs : ~sc.crashed /\ HasDupSeq(sc.names),
                    nfinals |-> Cardinality(Good(F)),
                    finals |-> {{<<p, Qual(g.imp[p])>> : p \in DOMAIN g.imp} : g \in Good(F)},
                    names |-> [i \in DOMAIN r.acc |-> {sc.names : sc \in {x \in r.acc[i] : ~x.crashed}}]]))
        /\ l' = l + 1
Spec == Init /\ [][Step]_l
Done == (l = Len(Cases) + 1) => PrintT("PREDICT-LINES " \o ToString(Len(Cases)))
=============================================================================
