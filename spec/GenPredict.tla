----------------------------- MODULE GenPredict -----------------------------
(* Runs the implementation-shaped models (Registry + Scope) on the abstract  *)
(* inputs of generator cases, in the order Mocker.Mock processes them: for   *)
(* every requested interface one scope per method (parameters, then results  *)
(* with suffix "Out"), then its type-parameter scope (the MockData literal    *)
(* evaluates typeParams() after the methods were built); at the end the sync  *)
(* and source-package imports.  One registry lives through the whole case.   *)
(* Prints per case what the algorithm AS WRITTEN can do:                     *)
(*   diverge   the alias recursion never returns            (C19 shape)      *)
(*   crash     resolveVarNameConflict dereferences nil      (C19 shape)      *)
(*   dup       two imports end with one qualifier           (C11 shape)      *)
(*   nameDup   two variables of a method end with one name  (C12 shape)      *)
(*   badQual   a path-derived alias is no usable identifier (C11 shape)      *)
(*   fieldDup  two variables end with one record field name (C12 shape)      *)
(*   nfinals   number of distinct outcomes over map-order choices (C14)      *)
(*   finals    the possible final (path, qualifier) sets                     *)
(*   names     per scope, the possible final name lists                      *)
(* The harness uses it to recognise known-finding shapes independently of    *)
(* the code under test, to aim C14's repetitions, and to report SPEC-DRIFT   *)
(* where real moq chose something the model does not predict.                *)
EXTENDS Scope, Json, Integers

CONSTANT CaseFile
Cases == ndJsonDeserialize(CaseFile)

VARIABLE l

(* packages arrive with their path components as characters (last component *)
(* first); the sanitised forms uniqueName works on are computed here         *)
PrepPkg(p)  == [path |-> p.path, name |-> p.name, alias |-> p.alias, san |-> [i \in DOMAIN p.comps |-> SanComp(p.comps[i])],
                sanCs |-> [i \in DOMAIN p.comps |-> SanChars(p.comps[i])]]

PrepPkgs(s) == [i \in DOMAIN s |-> PrepPkg(s[i])]

(* populateImports: the packages a type mentions, in the order the walk      *)
(* meets them (that order decides who keeps a contested qualifier). p = -1   *)
(* is the source package, p >= 0 an index into the case's package table.     *)
RECURSIVE Walk(_), WalkSeq(_)
Walk(t) == CASE t.k \in {"named", "alias"} -> (IF t.p >= -1 THEN <<t.p>> ELSE <<>>) \o WalkSeq(t.e)   \* the type's package, then its type arguments
             [] t.k \in {"ptr", "slice", "array", "chan", "struct", "iface"} -> Walk(t.e[1])
             [] t.k = "map"  -> Walk(t.e[1]) \o Walk(t.e[2])
             [] t.k = "func" -> WalkSeq(t.e) \o WalkSeq(t.r)
             [] OTHER -> <<>>
WalkSeq(ts) == IF ts = <<>> THEN <<>> ELSE Walk(Head(ts)) \o WalkSeq(Tail(ts))

PkgOf(c, p) == PrepPkg(IF p = -1 THEN c.src ELSE c.pkgs[p + 1])
PrepVar(c, v)  == [nameCs |-> v.nameCs, t |-> v.t, suffix |-> v.suffix,
                   pkgs |-> LET w == Walk(v.t) IN [i \in DOMAIN w |-> PkgOf(c, w[i])]]
PrepScopes(c) == [i \in DOMAIN c.scopes |-> [j \in DOMAIN c.scopes[i] |-> PrepVar(c, c.scopes[i][j])]]

(* thread the set of possible registries through the scopes, collecting per *)
(* scope the set of possible final scopes                                    *)
RECURSIVE Run(_, _, _, _)
Run(regs, scopes, moqPath, acc) ==
    IF scopes = <<>> THEN [regs |-> regs, acc |-> acc]
    ELSE LET outs == Method(regs, Head(scopes), moqPath) IN
         Run({o.reg : o \in outs}, Tail(scopes), moqPath, Append(acc, {o.sc : o \in outs}))

HasDupSeq(s) == \E i, j \in DOMAIN s : i # j /\ s[i] = s[j]
Fields(names) == [i \in DOMAIN names |-> names[i]]

Init == l = 1
Step == /\ l <= Len(Cases)
        /\ LET c == Cases[l]
               scopes == PrepScopes(c)
               r == Run({EmptyReg}, scopes, c.moqPath, <<>>)
               F == AddAll(r.regs, PrepPkgs(c.tail), c.moqPath)
               scs == UNION {r.acc[i] : i \in DOMAIN r.acc}
           IN PrintT("PREDICT " \o ToJson([case |-> c.case,
                    diverge |-> CanDiverge(F), dup |-> CanDuplicate(F),
                    crash |-> \E sc \in scs : sc.crashed,
                    badQual |-> \E g \in Good(F) : \E q \in DOMAIN g.imp : BadAlias(g.imp[q]),
                    nameDup |-> \E sc \in scs : ~sc.crashed /\ HasDupSeq(sc.names),
                    late |-> \E g \in Good(F) : \E i \in DOMAIN r.acc : \E sc \in r.acc[i] :
                               ~sc.crashed /\ \E k \in DOMAIN sc.names : \E j \in DOMAIN scopes[i] : \E q \in DOMAIN scopes[i][j].pkgs :
                                   LET path == scopes[i][j].pkgs[q].path IN path \in DOMAIN g.imp /\ Qual(g.imp[path]) = sc.names[k],
                    nfinals |-> Cardinality(Good(F)),
                    finals |-> {{<<p, Qual(g.imp[p])>> : p \in DOMAIN g.imp} : g \in Good(F)},
                    names |-> [i \in DOMAIN r.acc |-> {sc.names : sc \in {x \in r.acc[i] : ~x.crashed}}]]))
        /\ l' = l + 1
Spec == Init /\ [][Step]_l
Done == (l = Len(Cases) + 1) => PrintT("PREDICT-LINES " \o ToString(Len(Cases)))
=============================================================================
