-------------------------------- MODULE Cli --------------------------------
(* The moq command line against the file system (main.go), one action per    *)
(* step of run(), each system-call shaped step with its failure twin:        *)
(*                                                                           *)
(*   CheckArgs -> RemoveOut (-rm and -out only; ENOENT tolerated)            *)
(*   -> Load (go/packages on the source dir; sees the -out file if it is a   *)
(*      .go file of that package and still there)                            *)
(*   -> Lookup k-th interface argument, for every k, before anything is      *)
(*      rendered -> Render+Format -> Write                                   *)
(*        stdout mode: one write to fd 1                                     *)
(*        file mode  : MkdirAll(parent) ; open(O_TRUNC) ; write ; close      *)
(*   every failure: diagnostic on stderr, usage on stdout, exit 1            *)
(*                                                                           *)
(* os.WriteFile is three actions on purpose: the truncating open is where    *)
(* all-or-nothing is lost when the write then fails.                         *)
(*                                                                           *)
(* A scenario (constant record, chosen in Init) fixes the environment:       *)
(* what is at the -out path beforehand, the flags, which argument is bad,    *)
(* whether formatting must fail, which injected fault strikes.  TLC          *)
(* enumerates all scenarios; each terminal state is printed as the           *)
(* prediction for a real run of the binary under strace (spec -> code),      *)
(* and the requirement predicates below are checked on every state.          *)
EXTENDS Integers, Sequences, FiniteSets, TLC, Json

CONSTANTS EmitJson,
          AllowTruncFault   \* include the injected write failure after the truncating open (known finding)

Priors   == {"absent", "own", "ownnoop", "ownlong", "ownstub", "owncase", "older", "garbage", "empty", "dir", "parentfile"}
    \* own output of an earlier run with other flags: ownnoop (-fmt noop), ownlong (-with-resets, longer), ownstub (-stub),
    \* owncase (a mock name that differs in letter case only); empty: a zero-byte file
Mods     == {"tidy", "stale"}   \* stale: go.mod lacks a requirement the go command could add if it were allowed to write
OutModes == {"stdout", "file", "newdir", "otherpkg"}
    \* newdir: -out below directories that do not exist yet; otherpkg: -pkg mocks -out mocks/... in an existing directory
ArgKinds == {"ok", "ok2", "okalias", "missing1", "missing2", "notiface2", "badalias", "none"}
Faults   == {"none", "stdoutfull", "write"}

(* scenarios that make sense together *)
Scenarios ==
    { [prior |-> p, rm |-> r, out |-> o, args |-> a, fault |-> f, mod |-> m] :
        p \in Priors, r \in BOOLEAN, o \in OutModes, a \in ArgKinds, f \in Faults, m \in Mods }

Sane(s) ==
    /\ (s.out = "stdout") => (s.prior = "absent" /\ ~s.rm /\ s.fault \in {"none", "stdoutfull"})
    /\ (s.out # "stdout") => s.fault \in {"none", "write"}
    /\ (s.out = "newdir") => s.prior \in {"absent", "parentfile"}
    /\ (s.out = "file") => s.prior \notin {"parentfile", "owncase"}
    /\ (s.out = "otherpkg") => (s.prior \in {"absent", "own", "owncase", "ownstub", "garbage"} /\ s.args \in {"ok", "okalias", "missing2"})
    /\ (s.prior = "owncase") => s.args = "okalias"
    /\ (s.args = "okalias") => s.out = "otherpkg"
    /\ (s.prior \in {"ownstub", "empty"}) => s.args \in {"ok", "ok2", "missing2"}
    /\ (s.fault = "write") => AllowTruncFault
    /\ (s.fault # "none") => (s.args \in {"ok", "ok2"} /\ s.out # "otherpkg")
    /\ (s.mod = "stale") => (s.prior = "absent" /\ s.fault = "none" /\ s.args = "ok")
    /\ (s.prior \in {"ownnoop", "ownlong"}) => (s.out = "file" /\ s.args \in {"ok", "ok2"})

VARIABLES sc,        \* the scenario
          pc,        \* control point of run()
          outSt,     \* the -out path: "absent" | "prior" (untouched) | "empty" (truncated) | "new" (complete) | "dir"
          dirsMade,  \* MkdirAll created the parents
          srcOnStdout,  \* generated Go source reached fd 1: "none" | "full"
          usage,     \* usage text printed on stdout
          stderr,    \* diagnostic class printed: "" | stage name
          exit,      \* -1 while running
          wrote,     \* number of write calls carrying generated source
          touchedOther  \* something else in the tree was modified

vars == <<sc, pc, outSt, dirsMade, srcOnStdout, usage, stderr, exit, wrote, touchedOther>>

Init == /\ sc \in {s \in Scenarios : Sane(s)}
        /\ pc = "checkargs"
        /\ outSt = IF sc.prior \in {"absent", "parentfile"} THEN "absent" ELSE IF sc.prior = "dir" THEN "dir" ELSE "prior"
        /\ dirsMade = FALSE /\ srcOnStdout = "none" /\ usage = FALSE /\ stderr = "" /\ exit = -1 /\ wrote = 0
        /\ touchedOther = FALSE

Fail(stage) == /\ stderr' = stage /\ usage' = TRUE /\ exit' = 1 /\ pc' = "done"

InPlaceGo == sc.out # "stdout"   \* the -out file lives in the source package directory

CheckArgs ==
    /\ pc = "checkargs"
    /\ IF sc.args = "none"
       THEN Fail("usage") /\ UNCHANGED <<sc, outSt, dirsMade, srcOnStdout, wrote, touchedOther>>
       ELSE pc' = "remove" /\ UNCHANGED <<sc, outSt, dirsMade, srcOnStdout, usage, stderr, exit, wrote, touchedOther>>

RemoveOut ==
    /\ pc = "remove"
    /\ IF ~(sc.rm /\ sc.out # "stdout")
       THEN pc' = "load" /\ UNCHANGED <<outSt, stderr, usage, exit>>
       ELSE CASE outSt = "absent" /\ sc.prior # "parentfile" -> pc' = "load" /\ UNCHANGED <<outSt, stderr, usage, exit>>   \* ENOENT tolerated
              [] outSt = "absent" /\ sc.prior = "parentfile" -> Fail("remove") /\ UNCHANGED outSt                            \* ENOTDIR
              [] outSt = "prior" -> pc' = "load" /\ outSt' = "absent" /\ UNCHANGED <<stderr, usage, exit>>
              [] outSt = "dir"   -> Fail("remove") /\ UNCHANGED outSt                                                         \* directory not empty
    /\ UNCHANGED <<sc, dirsMade, srcOnStdout, wrote, touchedOther>>

(* the package loads unless a stale or garbled .go file is still in it *)
Loadable == /\ ~(InPlaceGo /\ sc.out = "file" /\ outSt = "prior" /\ sc.prior \in {"older", "garbage", "empty"})
            /\ sc.mod = "tidy"

Load ==
    /\ pc = "load"
    /\ IF Loadable THEN pc' = "lookup" /\ UNCHANGED <<stderr, usage, exit>> ELSE Fail("load")
    /\ UNCHANGED <<sc, outSt, dirsMade, srcOnStdout, wrote, touchedOther>>

Lookup ==
    /\ pc = "lookup"
    /\ CASE sc.args \in {"missing1", "missing2"} -> Fail("notfound")
         [] sc.args = "notiface2" -> Fail("notiface")
         [] OTHER -> pc' = "format" /\ UNCHANGED <<stderr, usage, exit>>
    /\ UNCHANGED <<sc, outSt, dirsMade, srcOnStdout, wrote, touchedOther>>

Format ==
    /\ pc = "format"
    /\ IF sc.args = "badalias" THEN Fail("format") ELSE pc' = "write" /\ UNCHANGED <<stderr, usage, exit>>
    /\ UNCHANGED <<sc, outSt, dirsMade, srcOnStdout, wrote, touchedOther>>

WriteStdout ==
    /\ pc = "write" /\ sc.out = "stdout"
    /\ IF sc.fault = "stdoutfull"
       THEN Fail("io") /\ UNCHANGED <<srcOnStdout, wrote>>
       ELSE srcOnStdout' = "full" /\ wrote' = wrote + 1 /\ exit' = 0 /\ pc' = "done" /\ UNCHANGED <<stderr, usage>>
    /\ UNCHANGED <<sc, outSt, dirsMade, touchedOther>>

Mkdirs ==
    /\ pc = "write" /\ sc.out # "stdout"
    /\ IF sc.prior = "parentfile"
       THEN Fail("io") /\ UNCHANGED dirsMade
       ELSE pc' = "open" /\ dirsMade' = (sc.out = "newdir") /\ UNCHANGED <<stderr, usage, exit>>
    /\ UNCHANGED <<sc, outSt, srcOnStdout, wrote, touchedOther>>

OpenTrunc ==
    /\ pc = "open"
    /\ IF outSt = "dir"
       THEN Fail("io") /\ UNCHANGED outSt
       ELSE pc' = "filewrite" /\ outSt' = "empty" /\ UNCHANGED <<stderr, usage, exit>>
    /\ UNCHANGED <<sc, dirsMade, srcOnStdout, wrote, touchedOther>>

WriteFile ==
    /\ pc = "filewrite"
    /\ IF sc.fault = "write"
       THEN Fail("io") /\ UNCHANGED <<outSt, wrote>>
       ELSE outSt' = "new" /\ wrote' = wrote + 1 /\ exit' = 0 /\ pc' = "done" /\ UNCHANGED <<stderr, usage>>
    /\ UNCHANGED <<sc, dirsMade, srcOnStdout, touchedOther>>

Terminated == pc = "done" /\ UNCHANGED vars

Next == CheckArgs \/ RemoveOut \/ Load \/ Lookup \/ Format \/ WriteStdout \/ Mkdirs \/ OpenTrunc \/ WriteFile \/ Terminated

Spec     == Init /\ [][Next]_vars
FairSpec == Spec /\ WF_vars(Next)

(* ---- requirements ---------------------------------------------------------- *)
Done == pc = "done"

(* C17: failures write nothing *)
AllOrNothing ==
    (Done /\ exit # 0) =>
        /\ stderr # ""
        /\ srcOnStdout = "none"
        /\ \/ outSt = "prior" /\ sc.prior \in {"own", "ownnoop", "ownlong", "ownstub", "owncase", "older", "garbage", "empty"}  \* byte-for-byte untouched
           \/ outSt = "dir" /\ sc.prior = "dir"
           \/ outSt = "absent" /\ (sc.prior \in {"absent", "parentfile"} \/ sc.rm) \* nothing there before, or -rm: just gone
(* C17: on success exactly the complete file, once; parents created *)
SuccessComplete ==
    (Done /\ exit = 0) =>
        /\ wrote = 1 /\ stderr = ""
        /\ (sc.out = "stdout") => (srcOnStdout = "full" /\ outSt = "absent")
        /\ (sc.out # "stdout") => (outSt = "new" /\ srcOnStdout = "none")
        /\ (sc.out = "newdir") => dirsMade
(* C18 *)
OnlyOutTouched == ~touchedOther /\ (sc.out = "stdout" => outSt = "absent")
(* C19 *)
ExitsCleanly == Done => exit \in {0, 1}
Terminates == <>Done
(* C15 (second half): with -rm the outcome does not depend on the prior      *)
(* content: success whenever the same scenario with prior = absent succeeds  *)
RmMakesPriorIrrelevant ==
    (Done /\ sc.rm /\ sc.out = "file" /\ sc.prior \in {"own", "ownnoop", "ownlong", "ownstub", "older", "garbage", "empty"} /\ sc.fault = "none" /\ sc.args \in {"ok", "ok2"}) => (exit = 0 /\ outSt = "new")

Emit == (EmitJson /\ Done) =>
          PrintT("CLI " \o ToJson([sc |-> sc, exit |-> exit, outSt |-> outSt, srcOnStdout |-> srcOnStdout, stderr |-> stderr,
                                   usage |-> usage, dirsMade |-> dirsMade, wrote |-> wrote]))
=============================================================================
