-------------------------------- MODULE Cli --------------------------------
(* The moq command line against the file system (main.go), one action per    *)
(* step of run(), each system-call shaped step with its failure twin:        *)
(*                                                                           *)
(*   ParseFlags (flag.Parse: an unknown flag exits 2 with the usage, -h      *)
(*      exits 0 with the usage, -version prints the version and exits 0 -    *)
(*      all three before anything else happens, -rm included)                *)
(*   -> CheckArgs (fewer than two positional arguments: exit 1)              *)
(*   -> RemoveOut (-rm and -out only; ENOENT tolerated)                      *)
(*   -> Load (go/packages on the source dir; sees the -out file if it is a   *)
(*      .go file of that package and still there)                            *)
(*   -> Lookup k-th interface argument, for every k, before anything is      *)
(*      rendered (a mock name requested twice is rejected here too)          *)
(*      -> Render+Format -> Write                                            *)
(*        stdout mode: one write to fd 1                                     *)
(*        file mode  : MkdirAll(parent) ; open(O_TRUNC) ; write ; close      *)
(*   every failure: diagnostic on stderr, usage on stdout, exit 1            *)
(*                                                                           *)
(* os.WriteFile is three actions on purpose: the truncating open is where    *)
(* all-or-nothing is lost when the write then fails.                         *)
(*                                                                           *)
(* A scenario (constant record, chosen in Init) fixes the environment:       *)
(* what is at the -out path beforehand, the flags, which argument is bad,    *)
(* whether formatting must fail, which injected fault strikes.  TLC          *)
(* enumerates all scenarios; each terminal state is printed as the           *)
(* prediction for a real run of the binary under strace (spec -> code),      *)
(* and the requirement predicates below are checked on every state.          *)
EXTENDS Integers, Sequences, FiniteSets, TLC, Json

CONSTANTS EmitJson,
          AllowTruncFault   \* include the injected write failure after the truncating open (known finding)

Priors   == {"absent", "own", "ownnoop", "ownlong", "ownstub", "owncase", "older", "garbage", "empty", "dir", "parentfile", "danglink"}
    \* own output of an earlier run with other flags: ownnoop (-fmt noop), ownlong (-with-resets, longer), ownstub (-stub),
    \* owncase (a mock name that differs in letter case only); empty: a zero-byte file;
    \* danglink: a symbolic link whose target does not exist (-rm removes the link, not what it points to)
Mods     == {"tidy", "stale", "nobody", "badimport", "typeerr"}
    \* stale: go.mod lacks a requirement the go command could add if it were allowed to write;
    \* nobody: a function declared without a body (only the compiler objects, the type checker does not);
    \* badimport: a file of the package imports a package that does not exist;
    \* typeerr: a file of the package has a type error and nothing else wrong (var limit int = "ten")
OutModes == {"stdout", "file", "newdir", "otherpkg", "longname"}
    \* longname: like file, with a file name of 250 bytes (legal, but nothing may be appended to it);
    \* newdir: -out below directories that do not exist yet; otherpkg: -pkg mocks -out mocks/... in an existing directory
ArgKinds == {"ok", "ok2", "okalias", "missing1", "missing2", "notiface2", "badalias", "dup", "flagslast", "one", "none"}
    \* flagslast: a flag after the positional arguments (Store -stub): flag parsing has stopped, it is looked up as an interface;
    \* one: the source directory only, no interface; dup: one mock name requested twice (Store Other:StoreMock); rejected while the arguments are looked up
Faults   == {"none", "stdoutfull", "write"}
FlagKinds == {"none", "version", "help", "bad"}   \* -version / -h / an undefined flag in front of everything else

(* scenarios that make sense together *)
Scenarios ==
    { [prior |-> p, rm |-> r, out |-> o, args |-> a, fault |-> f, mod |-> m, flag |-> g, stub |-> st] :
        p \in Priors, r \in BOOLEAN, o \in OutModes, a \in ArgKinds, f \in Faults, m \in Mods, g \in FlagKinds, st \in BOOLEAN }
    \* stub: the command line itself carries -stub (run() only hands it on; what matters is that the
    \* mock at -out afterwards is the stub variant, whatever happened on the way - C07 at the command line)

Sane(s) ==
    /\ (s.out = "stdout") => (s.prior = "absent" /\ s.fault \in {"none", "stdoutfull"})   \* -rm without -out: nothing to remove
    /\ (s.out # "stdout") => s.fault \in {"none", "write"}
    /\ (s.out = "newdir") => s.prior \in {"absent", "parentfile"}
    /\ (s.out = "file") => s.prior \notin {"parentfile", "owncase"}
    /\ (s.out = "otherpkg") => (s.prior \in {"absent", "own", "owncase", "ownstub", "garbage", "danglink"} /\ s.args \in {"ok", "okalias", "missing2", "flagslast"})
    /\ (s.prior = "owncase") => s.args = "okalias"
    /\ (s.args = "okalias") => s.out = "otherpkg"
    /\ (s.prior \in {"ownstub", "empty"}) => s.args \in {"ok", "ok2", "missing2"}
    /\ (s.fault = "write") => AllowTruncFault
    /\ (s.fault # "none") => (s.args \in {"ok", "ok2"} /\ (s.out = "otherpkg" => s.prior \in {"absent", "own"}))
    /\ (s.mod # "tidy") => (s.prior = "absent" /\ s.fault = "none" /\ s.args = "ok" /\ s.out \in {"stdout", "file"})
    /\ (s.out = "longname") => (s.prior \in {"absent", "own"} /\ s.args = "ok" /\ s.fault = "none" /\ s.mod = "tidy" /\ s.flag = "none")
    /\ (s.prior \in {"ownnoop", "ownlong"}) => (s.out = "file" /\ s.args \in {"ok", "ok2"})
    /\ (s.flag # "none") => (s.fault = "none" /\ s.mod = "tidy" /\ s.args \in {"ok", "none", "missing1"}
                              /\ s.prior \in {"absent", "own", "garbage"} /\ s.out \in {"stdout", "file"})
    /\ s.stub => (s.prior \in {"absent", "own", "ownstub", "older"} /\ s.args = "ok" /\ s.fault = "none" /\ s.flag = "none"
                  /\ s.mod = "tidy" /\ s.out \in {"file", "otherpkg"})
    /\ (s.prior = "danglink") => (s.rm /\ s.out = "otherpkg" /\ s.args = "ok" /\ s.fault = "none" /\ s.flag = "none" /\ s.mod = "tidy" /\ ~s.stub)
    /\ (s.args = "flagslast") => (s.flag = "none" /\ s.fault = "none" /\ s.mod = "tidy" /\ s.prior \in {"absent", "own"})
    /\ (s.args = "one") => (s.flag = "none" /\ s.fault = "none" /\ s.mod = "tidy" /\ s.prior \in {"absent", "own"} /\ s.out \in {"stdout", "file"})

VARIABLES sc,        \* the scenario
          pc,        \* control point of run()
          outSt,     \* the -out path: "absent" | "prior" (untouched) | "empty" (truncated) | "new" (complete) | "dir"
          dirsMade,  \* MkdirAll created the parents
          srcOnStdout,  \* generated Go source reached fd 1: "none" | "full"
          usage,     \* usage text printed on stdout
          stderr,    \* diagnostic class printed: "" | stage name
          version,   \* the version line was printed on stdout
          exit,      \* -1 while running
          wrote,     \* number of write calls carrying generated source
          touchedOther  \* something else in the tree was modified

vars == <<sc, pc, outSt, dirsMade, srcOnStdout, usage, stderr, version, exit, wrote, touchedOther>>

Init == /\ sc \in {s \in Scenarios : Sane(s)}
        /\ pc = "parse" /\ version = FALSE
        /\ outSt = IF sc.prior \in {"absent", "parentfile"} THEN "absent" ELSE IF sc.prior = "dir" THEN "dir" ELSE "prior"
        /\ dirsMade = FALSE /\ srcOnStdout = "none" /\ usage = FALSE /\ stderr = "" /\ exit = -1 /\ wrote = 0
        /\ touchedOther = FALSE

Fail(stage) == /\ stderr' = stage /\ usage' = TRUE /\ exit' = 1 /\ pc' = "done"

Informational == sc.flag \in {"version", "help"}

ParseFlags ==
    /\ pc = "parse"
    /\ CASE sc.flag = "bad"     -> stderr' = "flag" /\ usage' = TRUE /\ exit' = 2 /\ pc' = "done" /\ UNCHANGED version
         [] sc.flag = "help"    -> stderr' = "defaults" /\ usage' = TRUE /\ exit' = 0 /\ pc' = "done" /\ UNCHANGED version
         [] sc.flag = "version" -> version' = TRUE /\ exit' = 0 /\ pc' = "done" /\ UNCHANGED <<stderr, usage>>
         [] OTHER               -> pc' = "checkargs" /\ UNCHANGED <<stderr, usage, exit, version>>
    /\ UNCHANGED <<sc, outSt, dirsMade, srcOnStdout, wrote, touchedOther>>

InPlaceGo == sc.out # "stdout"   \* the -out file lives in the source package directory

CheckArgs ==
    /\ pc = "checkargs"
    /\ IF sc.args \in {"none", "one"}
       THEN Fail("usage") /\ UNCHANGED <<sc, version, outSt, dirsMade, srcOnStdout, wrote, touchedOther>>
       ELSE pc' = "remove" /\ UNCHANGED <<sc, version, outSt, dirsMade, srcOnStdout, usage, stderr, exit, wrote, touchedOther>>

RemoveOut ==
    /\ pc = "remove"
    /\ IF ~(sc.rm /\ sc.out # "stdout")
       THEN pc' = "load" /\ UNCHANGED <<outSt, stderr, usage, exit>>
       ELSE CASE outSt = "absent" /\ sc.prior # "parentfile" -> pc' = "load" /\ UNCHANGED <<outSt, stderr, usage, exit>>   \* ENOENT tolerated
              [] outSt = "absent" /\ sc.prior = "parentfile" -> Fail("remove") /\ UNCHANGED outSt                            \* ENOTDIR
              [] outSt = "prior" -> pc' = "load" /\ outSt' = "absent" /\ UNCHANGED <<stderr, usage, exit>>
              [] outSt = "dir"   -> Fail("remove") /\ UNCHANGED outSt                                                         \* directory not empty
    /\ UNCHANGED <<sc, version, dirsMade, srcOnStdout, wrote, touchedOther>>

(* the package loads unless a stale or garbled .go file is still in it *)
Loadable == /\ ~(InPlaceGo /\ sc.out = "file" /\ outSt = "prior" /\ sc.prior \in {"older", "garbage", "empty"})
            /\ sc.mod = "tidy"

Load ==
    /\ pc = "load"
    /\ IF Loadable THEN pc' = "lookup" /\ UNCHANGED <<stderr, usage, exit>> ELSE Fail("load")
    /\ UNCHANGED <<sc, version, outSt, dirsMade, srcOnStdout, wrote, touchedOther>>

Lookup ==
    /\ pc = "lookup"
    /\ CASE sc.args \in {"missing1", "missing2", "flagslast"} -> Fail("notfound")
         [] sc.args = "notiface2" -> Fail("notiface")
         [] sc.args = "dup" -> Fail("dupname")
         [] OTHER -> pc' = "format" /\ UNCHANGED <<stderr, usage, exit>>
    /\ UNCHANGED <<sc, version, outSt, dirsMade, srcOnStdout, wrote, touchedOther>>

Format ==
    /\ pc = "format"
    /\ IF sc.args = "badalias" THEN Fail("format") ELSE pc' = "write" /\ UNCHANGED <<stderr, usage, exit>>
    /\ UNCHANGED <<sc, version, outSt, dirsMade, srcOnStdout, wrote, touchedOther>>

WriteStdout ==
    /\ pc = "write" /\ sc.out = "stdout"
    /\ IF sc.fault = "stdoutfull"
       THEN Fail("io") /\ UNCHANGED <<srcOnStdout, wrote>>
       ELSE srcOnStdout' = "full" /\ wrote' = wrote + 1 /\ exit' = 0 /\ pc' = "done" /\ UNCHANGED <<stderr, usage>>
    /\ UNCHANGED <<sc, version, outSt, dirsMade, touchedOther>>

Mkdirs ==
    /\ pc = "write" /\ sc.out # "stdout"
    /\ IF sc.prior = "parentfile"
       THEN Fail("io") /\ UNCHANGED dirsMade
       ELSE pc' = "open" /\ dirsMade' = (sc.out = "newdir") /\ UNCHANGED <<stderr, usage, exit>>
    /\ UNCHANGED <<sc, version, outSt, srcOnStdout, wrote, touchedOther>>

OpenTrunc ==
    /\ pc = "open"
    /\ IF outSt = "dir"
       THEN Fail("io") /\ UNCHANGED outSt
       ELSE pc' = "filewrite" /\ outSt' = "empty" /\ UNCHANGED <<stderr, usage, exit>>
    /\ UNCHANGED <<sc, version, dirsMade, srcOnStdout, wrote, touchedOther>>

WriteFile ==
    /\ pc = "filewrite"
    /\ IF sc.fault = "write"
       THEN Fail("io") /\ UNCHANGED <<outSt, wrote>>
       ELSE outSt' = "new" /\ wrote' = wrote + 1 /\ exit' = 0 /\ pc' = "done" /\ UNCHANGED <<stderr, usage>>
    /\ UNCHANGED <<sc, version, dirsMade, srcOnStdout, touchedOther>>

Terminated == pc = "done" /\ UNCHANGED vars

Next == ParseFlags \/ CheckArgs \/ RemoveOut \/ Load \/ Lookup \/ Format \/ WriteStdout \/ Mkdirs \/ OpenTrunc \/ WriteFile \/ Terminated

Spec     == Init /\ [][Next]_vars
FairSpec == Spec /\ WF_vars(Next)

(* ---- requirements ---------------------------------------------------------- *)
Done == pc = "done"

(* C17: failures write nothing *)
AllOrNothing ==
    (Done /\ exit # 0) =>
        /\ stderr # ""
        /\ srcOnStdout = "none"
        /\ \/ outSt = "prior" /\ sc.prior \in {"own", "ownnoop", "ownlong", "ownstub", "owncase", "older", "garbage", "empty"}  \* byte-for-byte untouched
           \/ outSt = "dir" /\ sc.prior = "dir"
           \/ outSt = "absent" /\ (sc.prior \in {"absent", "parentfile"} \/ sc.rm) \* nothing there before, or -rm: just gone
(* C17: on success exactly the complete file, once; parents created *)
SuccessComplete ==
    (Done /\ exit = 0 /\ ~Informational) =>
        /\ wrote = 1 /\ stderr = ""
        /\ (sc.out = "stdout") => (srcOnStdout = "full" /\ outSt = "absent")
        /\ (sc.out # "stdout") => (outSt = "new" /\ srcOnStdout = "none")
        /\ (sc.out = "newdir") => dirsMade
(* -version and -h do nothing else, whatever else the command line says *)
InfoTouchesNothing ==
    (Done /\ Informational) =>
        /\ exit = 0 /\ wrote = 0 /\ srcOnStdout = "none" /\ ~dirsMade
        /\ outSt = (IF sc.prior = "absent" THEN "absent" ELSE "prior")
        /\ (sc.flag = "version") <=> version
(* C18 *)
OnlyOutTouched == ~touchedOther /\ (sc.out = "stdout" => outSt = "absent")
(* C19 *)
ExitsCleanly == Done => (exit \in {0, 1, 2} /\ (exit = 2 <=> sc.flag = "bad"))
Terminates == <>Done
(* C15 (second half): with -rm the outcome does not depend on the prior      *)
(* content: success whenever the same scenario with prior = absent succeeds  *)
RmMakesPriorIrrelevant ==
    (Done /\ sc.rm /\ sc.out = "file" /\ sc.prior \in {"own", "ownnoop", "ownlong", "ownstub", "older", "garbage", "empty"} /\ sc.fault = "none" /\ sc.args \in {"ok", "ok2"} /\ sc.flag = "none") => (exit = 0 /\ outSt = "new")

Emit == (EmitJson /\ Done) =>
          PrintT("CLI " \o ToJson([sc |-> sc, exit |-> exit, outSt |-> outSt, srcOnStdout |-> srcOnStdout, stderr |-> stderr,
                                   usage |-> usage, dirsMade |-> dirsMade, wrote |-> wrote, version |-> version]))
=============================================================================
