--------------------------- MODULE RegistryPredict ---------------------------
(* Runs the Registry model on the abstract inputs of generator cases: for    *)
(* every case the sequence of packages in the order moq hands them to        *)
(* AddImport.  Prints, per case, whether the algorithm as written can        *)
(* diverge, can produce a duplicate qualifier, is confluent, and the set of  *)
(* possible final (path, qualifier) assignments.  The harness uses this to   *)
(*  - recognise the shapes of the recorded known findings (a model           *)
(*    predicate, independent of the code under test),                        *)
(*  - pick the inputs with map-order choice points for C14's repetitions,    *)
(*  - compare predicted with observed qualifiers (SPEC-DRIFT if different).  *)
EXTENDS Registry, Json

CONSTANT CaseFile
Cases == ndJsonDeserialize(CaseFile)

VARIABLE l
Pairs(imp) == {<<p, Qual(imp[p])>> : p \in DOMAIN imp}

Init == l = 1
Step == /\ l <= Len(Cases)
        /\ LET c == Cases[l]
               F == Finals(c.pkgs, c.moqPath) IN
           PrintT("PREDICT " \o ToJson([case |-> c.case, diverge |-> CanDiverge(F), dup |-> CanDuplicate(F),
                                        nfinals |-> Cardinality(Good(F)),
                                        finals |-> {Pairs(r.imp) : r \in Good(F)}]))
        /\ l' = l + 1
Spec == Init /\ [][Step]_l
Done == (l = Len(Cases) + 1) => PrintT("PREDICT-LINES " \o ToString(Len(Cases)))
=============================================================================
