---- MODULE Cli_TTrace_1791010255 ----
EXTENDS Cli, Sequences, TLCExt, Toolbox, Naturals, TLC

_expression ==
    LET Cli_TEExpression == INSTANCE Cli_TEExpression
    IN Cli_TEExpression!expression
----

_trace ==
    LET Cli_TETrace == INSTANCE Cli_TETrace
    IN Cli_TETrace!trace
----

_inv ==
    ~(
        TLCGet("level") = Len(_TETrace)
        /\
        sc = ([prior |-> "absent", rm |-> FALSE, out |-> "file", args |-> "ok", fault |-> "write", mod |-> "tidy", flag |-> "none"])
        /\
        exit = (1)
        /\
        touchedOther = (FALSE)
        /\
        pc = ("done")
        /\
        wrote = (0)
        /\
        usage = (TRUE)
        /\
        srcOnStdout = ("none")
        /\
        outSt = ("empty")
        /\
        stderr = ("io")
        /\
        version = (FALSE)
        /\
        dirsMade = (FALSE)
    )
----

_init ==
    /\ exit = _TETrace[1].exit
    /\ wrote = _TETrace[1].wrote
    /\ outSt = _TETrace[1].outSt
    /\ usage = _TETrace[1].usage
    /\ srcOnStdout = _TETrace[1].srcOnStdout
    /\ touchedOther = _TETrace[1].touchedOther
    /\ pc = _TETrace[1].pc
    /\ stderr = _TETrace[1].stderr
    /\ dirsMade = _TETrace[1].dirsMade
    /\ sc = _TETrace[1].sc
    /\ version = _TETrace[1].version
----

_next ==
    /\ \E i,j \in DOMAIN _TETrace:
        /\ \/ /\ j = i + 1
              /\ i = TLCGet("level")
        /\ exit  = _TETrace[i].exit
        /\ exit' = _TETrace[j].exit
        /\ wrote  = _TETrace[i].wrote
        /\ wrote' = _TETrace[j].wrote
        /\ outSt  = _TETrace[i].outSt
        /\ outSt' = _TETrace[j].outSt
        /\ usage  = _TETrace[i].usage
        /\ usage' = _TETrace[j].usage
        /\ srcOnStdout  = _TETrace[i].srcOnStdout
        /\ srcOnStdout' = _TETrace[j].srcOnStdout
        /\ touchedOther  = _TETrace[i].touchedOther
        /\ touchedOther' = _TETrace[j].touchedOther
        /\ pc  = _TETrace[i].pc
        /\ pc' = _TETrace[j].pc
        /\ stderr  = _TETrace[i].stderr
        /\ stderr' = _TETrace[j].stderr
        /\ dirsMade  = _TETrace[i].dirsMade
        /\ dirsMade' = _TETrace[j].dirsMade
        /\ sc  = _TETrace[i].sc
        /\ sc' = _TETrace[j].sc
        /\ version  = _TETrace[i].version
        /\ version' = _TETrace[j].version

\* Uncomment the ASSUME below to write the states of the error trace
\* to the given file in Json format. Note that you can pass any tuple
\* to `JsonSerialize`. For example, a sub-sequence of _TETrace.
    \* ASSUME
    \*     LET J == INSTANCE Json
    \*         IN J!JsonSerialize("Cli_TTrace_1791010255.json", _TETrace)

=============================================================================

 Note that you can extract this module `Cli_TEExpression`
  to a dedicated file to reuse `expression` (the module in the 
  dedicated `Cli_TEExpression.tla` file takes precedence 
  over the module `Cli_TEExpression` below).

---- MODULE Cli_TEExpression ----
EXTENDS Cli, Sequences, TLCExt, Toolbox, Naturals, TLC

expression == 
    [
        \* To hide variables of the `Cli` spec from the error trace,
        \* remove the variables below.  The trace will be written in the order
        \* of the fields of this record.
        exit |-> exit
        ,wrote |-> wrote
        ,outSt |-> outSt
        ,usage |-> usage
        ,srcOnStdout |-> srcOnStdout
        ,touchedOther |-> touchedOther
        ,pc |-> pc
        ,stderr |-> stderr
        ,dirsMade |-> dirsMade
        ,sc |-> sc
        ,version |-> version
        
        \* Put additional constant-, state-, and action-level expressions here:
        \* ,_stateNumber |-> _TEPosition
        \* ,_exitUnchanged |-> exit = exit'
        
        \* Format the `exit` variable as Json value.
        \* ,_exitJson |->
        \*     LET J == INSTANCE Json
        \*     IN J!ToJson(exit)
        
        \* Lastly, you may build expressions over arbitrary sets of states by
        \* leveraging the _TETrace operator.  For example, this is how to
        \* count the number of times a spec variable changed up to the current
        \* state in the trace.
        \* ,_exitModCount |->
        \*     LET F[s \in DOMAIN _TETrace] ==
        \*         IF s = 1 THEN 0
        \*         ELSE IF _TETrace[s].exit # _TETrace[s-1].exit
        \*             THEN 1 + F[s-1] ELSE F[s-1]
        \*     IN F[_TEPosition - 1]
    ]

=============================================================================



Parsing and semantic processing can take forever if the trace below is long.
 In this case, it is advised to uncomment the module below to deserialize the
 trace from a generated binary file.

\*
\*---- MODULE Cli_TETrace ----
\*EXTENDS Cli, IOUtils, TLC
\*
\*trace == IODeserialize("Cli_TTrace_1791010255.bin", TRUE)
\*
\*=============================================================================
\*

---- MODULE Cli_TETrace ----
EXTENDS Cli, TLC

trace == 
    <<
    ([sc |-> [prior |-> "absent", rm |-> FALSE, out |-> "file", args |-> "ok", fault |-> "write", mod |-> "tidy", flag |-> "none"],exit |-> -1,touchedOther |-> FALSE,pc |-> "parse",wrote |-> 0,usage |-> FALSE,srcOnStdout |-> "none",outSt |-> "absent",stderr |-> "",version |-> FALSE,dirsMade |-> FALSE]),
    ([sc |-> [prior |-> "absent", rm |-> FALSE, out |-> "file", args |-> "ok", fault |-> "write", mod |-> "tidy", flag |-> "none"],exit |-> -1,touchedOther |-> FALSE,pc |-> "checkargs",wrote |-> 0,usage |-> FALSE,srcOnStdout |-> "none",outSt |-> "absent",stderr |-> "",version |-> FALSE,dirsMade |-> FALSE]),
    ([sc |-> [prior |-> "absent", rm |-> FALSE, out |-> "file", args |-> "ok", fault |-> "write", mod |-> "tidy", flag |-> "none"],exit |-> -1,touchedOther |-> FALSE,pc |-> "remove",wrote |-> 0,usage |-> FALSE,srcOnStdout |-> "none",outSt |-> "absent",stderr |-> "",version |-> FALSE,dirsMade |-> FALSE]),
    ([sc |-> [prior |-> "absent", rm |-> FALSE, out |-> "file", args |-> "ok", fault |-> "write", mod |-> "tidy", flag |-> "none"],exit |-> -1,touchedOther |-> FALSE,pc |-> "load",wrote |-> 0,usage |-> FALSE,srcOnStdout |-> "none",outSt |-> "absent",stderr |-> "",version |-> FALSE,dirsMade |-> FALSE]),
    ([sc |-> [prior |-> "absent", rm |-> FALSE, out |-> "file", args |-> "ok", fault |-> "write", mod |-> "tidy", flag |-> "none"],exit |-> -1,touchedOther |-> FALSE,pc |-> "lookup",wrote |-> 0,usage |-> FALSE,srcOnStdout |-> "none",outSt |-> "absent",stderr |-> "",version |-> FALSE,dirsMade |-> FALSE]),
    ([sc |-> [prior |-> "absent", rm |-> FALSE, out |-> "file", args |-> "ok", fault |-> "write", mod |-> "tidy", flag |-> "none"],exit |-> -1,touchedOther |-> FALSE,pc |-> "format",wrote |-> 0,usage |-> FALSE,srcOnStdout |-> "none",outSt |-> "absent",stderr |-> "",version |-> FALSE,dirsMade |-> FALSE]),
    ([sc |-> [prior |-> "absent", rm |-> FALSE, out |-> "file", args |-> "ok", fault |-> "write", mod |-> "tidy", flag |-> "none"],exit |-> -1,touchedOther |-> FALSE,pc |-> "write",wrote |-> 0,usage |-> FALSE,srcOnStdout |-> "none",outSt |-> "absent",stderr |-> "",version |-> FALSE,dirsMade |-> FALSE]),
    ([sc |-> [prior |-> "absent", rm |-> FALSE, out |-> "file", args |-> "ok", fault |-> "write", mod |-> "tidy", flag |-> "none"],exit |-> -1,touchedOther |-> FALSE,pc |-> "open",wrote |-> 0,usage |-> FALSE,srcOnStdout |-> "none",outSt |-> "absent",stderr |-> "",version |-> FALSE,dirsMade |-> FALSE]),
    ([sc |-> [prior |-> "absent", rm |-> FALSE, out |-> "file", args |-> "ok", fault |-> "write", mod |-> "tidy", flag |-> "none"],exit |-> -1,touchedOther |-> FALSE,pc |-> "filewrite",wrote |-> 0,usage |-> FALSE,srcOnStdout |-> "none",outSt |-> "empty",stderr |-> "",version |-> FALSE,dirsMade |-> FALSE]),
    ([sc |-> [prior |-> "absent", rm |-> FALSE, out |-> "file", args |-> "ok", fault |-> "write", mod |-> "tidy", flag |-> "none"],exit |-> 1,touchedOther |-> FALSE,pc |-> "done",wrote |-> 0,usage |-> TRUE,srcOnStdout |-> "none",outSt |-> "empty",stderr |-> "io",version |-> FALSE,dirsMade |-> FALSE])
    >>
----


=============================================================================

---- CONFIG Cli_TTrace_1791010255 ----
CONSTANTS
    EmitJson = FALSE
    AllowTruncFault = TRUE

INVARIANT
    _inv

CHECK_DEADLOCK
    \* CHECK_DEADLOCK off because of PROPERTY or INVARIANT above.
    FALSE

INIT
    _init

NEXT
    _next

CONSTANT
    _TETrace <- _trace

ALIAS
    _expression
=============================================================================
\* Generated on Sat Oct 03 06:50:57 UTC 2026