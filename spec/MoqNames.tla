------------------------------ MODULE MoqNames ------------------------------
(* The naming rules moq documents and property C13 fixes, transcribed        *)
(* independently of the implementation from the statement of C13 and the     *)
(* comment of varNameForType: record-field names (Exported), default names   *)
(* of unnamed parameters (VarNameForType), reserved words.                   *)
EXTENDS Chars

(* golint's initialisms, internal/template/template.go:221-225 *)
Initialisms == {
  <<"A","C","L">>, <<"A","P","I">>, <<"A","S","C","I","I">>, <<"C","P","U">>, <<"C","S","S">>, <<"D","N","S">>,
  <<"E","O","F">>, <<"G","U","I","D">>, <<"H","T","M","L">>, <<"H","T","T","P">>, <<"H","T","T","P","S">>, <<"I","D">>,
  <<"I","P">>, <<"J","S","O","N">>, <<"L","H","S">>, <<"Q","P","S">>, <<"R","A","M">>, <<"R","H","S">>, <<"R","P","C">>,
  <<"S","L","A">>, <<"S","M","T","P">>, <<"S","Q","L">>, <<"S","S","H">>, <<"T","C","P">>, <<"T","L","S">>, <<"T","T","L">>,
  <<"U","D","P">>, <<"U","I">>, <<"U","I","D">>, <<"U","U","I","D">>, <<"U","R","I">>, <<"U","R","L">>, <<"U","T","F","8">>,
  <<"V","M">>, <<"X","M","L">>, <<"X","M","P","P">>, <<"X","S","R","F">>, <<"X","S","S">> }

(* C13: the record field of a parameter: whole name upper-cased for an       *)
(* initialism (ignoring case), else first letter upper-cased                 *)
Exported(s) == IF s = <<>> THEN <<>>
               ELSE IF ToUpper(s) \in Initialisms THEN ToUpper(s) ELSE Capitalise(s)

Keywords == {"break", "default", "func", "interface", "select", "case", "defer", "go", "map", "struct", "chan", "else",
             "goto", "package", "switch", "const", "fallthrough", "if", "range", "type", "continue", "for", "import",
             "return", "var"}
(* names generated code needs for itself inside a method *)
BodyNames == {"mock", "callInfo"}

(* Default names of unnamed parameters, by type shape (abstract syntax of    *)
(* the harness: k, n, p, e, r).  "judged" shapes are those the statement of  *)
(* C13 and the comment of varNameForType document; the others are compared   *)
(* as drift only.                                                            *)
Unsigned == {<<"u","i","n","t">>, <<"u","i","n","t","8">>, <<"u","i","n","t","1","6">>, <<"u","i","n","t","3","2">>,
             <<"u","i","n","t","6","4">>, <<"u","i","n","t","p","t","r">>, <<"b","y","t","e">>}
Signed   == {<<"i","n","t">>, <<"i","n","t","8">>, <<"i","n","t","1","6">>, <<"i","n","t","3","2">>, <<"i","n","t","6","4">>, <<"r","u","n","e">>}

(* asWritten = TRUE: basicTypeVarName compares Basic.Info() by equality, so  *)
(* unsigned kinds (IsInteger|IsUnsigned) fall through to "v"; FALSE: the     *)
(* documented rule "n for integers"                                          *)
BasicNameR(n, asWritten) ==
    CASE n = <<"s","t","r","i","n","g">> -> <<"s">>
      [] n = <<"b","o","o","l">> -> <<"b">>
      [] n \in Signed -> <<"n">>
      [] n \in Unsigned -> IF asWritten THEN <<"v">> ELSE <<"n">>
      [] n \in {<<"f","l","o","a","t","3","2">>, <<"f","l","o","a","t","6","4">>} -> <<"f">>
      [] OTHER -> <<"v">>
BasicName(n) == BasicNameR(n, FALSE)

RECURSIVE VarNameR(_, _)
NestedR(t, w) == IF t.k = "basic" THEN DeCapitalise(t.nc) ELSE VarNameR(t, w)
VarNameR(t, w) ==
    CASE t.k = "basic"  -> BasicNameR(t.nc, w)
      [] t.k = "named"  -> IF t.nc = <<"e","r","r","o","r">> THEN <<"e","r","r">>
                           ELSE IF DeCapitalise(t.nc) = t.nc THEN t.nc \o <<"M","o","q","P","a","r","a","m">> ELSE DeCapitalise(t.nc)
      [] t.k = "ptr"    -> VarNameR(t.e[1], w)
      [] t.k \in {"slice", "array"} -> NestedR(t.e[1], w) \o <<"s">>
      [] t.k = "map"    -> NestedR(t.e[1], w) \o <<"T","o">> \o Capitalise(NestedR(t.e[2], w))
      [] t.k = "chan"   -> NestedR(t.e[1], w) \o <<"C","h">>
      [] t.k = "func"   -> <<"f","n">>
      [] t.k = "struct" -> <<"v","a","l">>
      [] t.k = "iface"  -> <<"i","f","a","c","e","V","a","l">>
      [] OTHER          -> <<"v">>
VarNameForType(t) == VarNameR(t, FALSE)

(* varName: a default name that would shadow something gets the MoqParam suffix *)
ReservedDefaults == Keywords \cup BodyNames \cup
    {"string", "bool", "byte", "rune", "uintptr", "int", "int8", "int16", "int32", "int64",
     "uint", "uint8", "uint16", "uint32", "uint64", "float32", "float64", "complex64", "complex128"}
DefaultName(t) == LET n == VarNameForType(t) IN
                  IF Join(n) \in ReservedDefaults THEN n \o <<"M","o","q","P","a","r","a","m">> ELSE n

(* shapes whose default name the documentation fixes (C13 judged); the rest drift-only *)
RECURSIVE Documented(_)
Documented(t) ==
    CASE t.k = "basic" -> BasicName(t.nc) # <<"v">>
      [] t.k = "named" -> DeCapitalise(t.nc) # t.nc \/ t.nc = <<"e","r","r","o","r">>
      [] t.k \in {"ptr", "slice", "array", "chan"} -> Documented(t.e[1])
      [] t.k = "map" -> Documented(t.e[1]) /\ Documented(t.e[2])
      [] OTHER -> FALSE
(* an alias that uniqueName derived from the path and that cannot stand in    *)
(* an import declaration: not an identifier (2fa...), a keyword (go, type),   *)
(* or a predeclared name the generated file still needs (error, string...)   *)
RECURSIVE ConcatCs(_, _), ConcatS(_, _)
ConcatS(san, k) == IF k = 0 THEN "" ELSE san[k] \o ConcatS(san, k - 1)   \* what uniqueName(k - 1) returns
ConcatCs(sanCs, k) == IF k = 0 THEN <<>> ELSE sanCs[k] \o ConcatCs(sanCs, k - 1)
Predeclared == {"error", "string", "bool", "int", "any", "byte", "rune", "uint", "nil", "true", "false", "len", "append", "panic", "struct", "func"}
BadAlias(r) == /\ r.alias # ""
               /\ \E k \in 1..Len(r.san) :
                     /\ r.alias = ConcatS(r.san, k)
                     /\ (~IsIdent(ConcatCs(r.sanCs, k)) \/ r.alias \in Keywords \/ r.alias \in Predeclared)
=============================================================================
