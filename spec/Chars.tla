------------------------------- MODULE Chars -------------------------------
(* Identifiers and import paths are taken apart by moq's algorithms, so the  *)
(* specifications represent them as sequences of one-character strings.      *)
EXTENDS Naturals, Sequences

LowerCs == <<"a","b","c","d","e","f","g","h","i","j","k","l","m","n","o","p","q","r","s","t","u","v","w","x","y","z">>
UpperCs == <<"A","B","C","D","E","F","G","H","I","J","K","L","M","N","O","P","Q","R","S","T","U","V","W","X","Y","Z">>
DigitCs == {"0","1","2","3","4","5","6","7","8","9"}

IndexIn(c, s) == IF \E i \in DOMAIN s : s[i] = c THEN CHOOSE i \in DOMAIN s : s[i] = c ELSE 0

IsLower(c) == IndexIn(c, LowerCs) # 0
IsUpper(c) == IndexIn(c, UpperCs) # 0
IsLetter(c) == IsLower(c) \/ IsUpper(c) \/ c = "_"
IsDigit(c) == c \in DigitCs

ToUpperC(c) == IF IsLower(c) THEN UpperCs[IndexIn(c, LowerCs)] ELSE c
ToLowerC(c) == IF IsUpper(c) THEN LowerCs[IndexIn(c, UpperCs)] ELSE c
ToUpper(s) == [i \in DOMAIN s |-> ToUpperC(s[i])]
ToLower(s) == [i \in DOMAIN s |-> ToLowerC(s[i])]

(* strings.ToUpper(s[:1]) + s[1:] and its inverse; s non-empty *)
Capitalise(s)   == [i \in DOMAIN s |-> IF i = 1 THEN ToUpperC(s[i]) ELSE s[i]]
DeCapitalise(s) == [i \in DOMAIN s |-> IF i = 1 THEN ToLowerC(s[i]) ELSE s[i]]

(* a Go identifier (ASCII): letter or _ first, then letters, digits, _ *)
IsIdent(s) == /\ Len(s) > 0 /\ IsLetter(s[1])
              /\ \A i \in DOMAIN s : IsLetter(s[i]) \/ IsDigit(s[i])

RECURSIVE Join(_)
Join(s) == IF s = <<>> THEN "" ELSE s[1] \o Join(Tail(s))

(* strings.NewReplacer("go-","", "-go","", "-","", "_","", ".","", "@","", "+","", "~","") of     *)
(* internal/registry/package.go: left to right, at each position the first pattern (in         *)
(* argument order) that matches is removed, otherwise the character is kept                    *)
StartsWith(s, p) == Len(s) >= Len(p) /\ SubSeq(s, 1, Len(p)) = p
RECURSIVE Strip(_)
Strip(s) == IF s = <<>> THEN <<>>
            ELSE IF StartsWith(s, <<"g","o","-">>) \/ StartsWith(s, <<"-","g","o">>) THEN Strip(SubSeq(s, 4, Len(s)))
            ELSE IF Head(s) \in {"-", "_", ".", "@", "+", "~"} THEN Strip(Tail(s))
            ELSE <<Head(s)>> \o Strip(Tail(s))
(* what uniqueName concatenates for one path component *)
SanComp(c) == Join(ToLower(Strip(c)))
SanChars(c) == ToLower(Strip(c))       \* the same, still as characters

Cs(str) == str   \* documentation only: values of this shape are already sequences
=============================================================================
