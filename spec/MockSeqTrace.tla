-------------------------- MODULE MockSeqTrace --------------------------
(* Code -> spec: sequential traces recorded from real generated mocks        *)
(* (random long histories run by the reflection driver) are checked step by  *)
(* step against the requirement object MockAbs.  The driver logs, after      *)
(* every top-level operation, the complete observable state (all MCalls()    *)
(* lists as argument fingerprints), what every configured function was       *)
(* invoked with and what it saw; the spec recomputes what MockAbs            *)
(* prescribes and compares field by field.  Every trace line is consumed     *)
(* (the spec state is authoritative after a mismatch, so the rest of the     *)
(* trace is still checked) and the failed comparisons are collected in       *)
(* `fails`, printed when the trace file is exhausted.                        *)
EXTENDS MockAbs, TLC, Json

CONSTANT TraceFile
Trace == ndJsonDeserialize(TraceFile)

VARIABLES l,      \* next trace line
          S,      \* MockAbs state of the mock of the current trace
          fpOf,   \* fpOf[id] = logged fingerprint of the argument tuple of call id
          fails   \* set of <<line, field, properties>>

vars == <<l, S, fpOf, fails>>

FpSeq(ids, f) == [i \in DOMAIN ids |-> f[ids[i]]]
MapFp(rm, f)  == [m \in Methods |-> FpSeq(rm[m], f)]

Init == l = 1 /\ S = InitS /\ fpOf = <<>> /\ fails = {}

Bad(cond, field, props) == IF cond THEN {} ELSE {<<l, field, props>>}

Flags(ev) ==
    Bad(ev.stable, "snapshot-stable", "C04") \cup Bad(ev.stub = Stub /\ ev.resets = WithResets, "config", "infra")

CallStep(ev, S0, f0) ==
    LET eff == CallEffect(S0, ev.m, ev.mode, ev.nilRec)
        f1  == (f0 \o <<ev.args>>) \o (IF ev.args2 = "" THEN <<>> ELSE <<ev.args2>>)
        o   == eff.obs
        nil == ev.mode[1] = "nil"
        ran == o.outcome \in {"ret", "panic"}
        resetish == ev.mode[1] \in {"reset", "resetall"}
    IN  /\ S' = eff.S
        /\ fpOf' = f1
        /\ fails' = fails \cup Flags(ev)
             \cup Bad(ev.outcome = o.outcome, "outcome", IF nil THEN "C07" ELSE "C03")
             \cup Bad(ev.msgOK, "panic-message", "C07")
             \cup Bad(ev.resOK, "results", "C03")
             \cup Bad(ev.sameG, "goroutine", "C03")
             \cup Bad((o.id2 = 0) = (ev.args2 = ""), "nested-call", "C03")
             \cup Bad(ev.delegated = MapFp(o.delegated, f1), "delegated", IF nil THEN "C07" ELSE "C03")
             \cup Bad(ran => ev.seen = MapFp(o.seen, f1), "seen-inside-function", "C04")
             \cup Bad((ran /\ o.id2 # 0) => ev.seen2 = MapFp(o.seen2, f1), "seen-inside-nested-function", "C04")
             \cup Bad(ev.after = MapFp(eff.S.rec, f1), "state-after",
                      IF resetish THEN "C08" ELSE IF nil /\ Stub THEN "C04,C07" ELSE "C04")

OtherStep(ev, S0, f0) ==
    LET S1 == CASE ev.op = "calls"    -> S0
                [] ev.op = "reset"    -> ResetOne(S0, ev.m)
                [] ev.op = "resetall" -> ResetEvery(S0)
    IN  /\ S' = S1
        /\ fpOf' = f0
        /\ fails' = fails \cup Flags(ev)
             \cup Bad(ev.op = "calls" => ev.snap = FpSeq(S0.rec[ev.m], f0), "snapshot", "C04")
             \cup Bad(ev.after = MapFp(S1.rec, f0), "state-after", IF ev.op = "calls" THEN "C04" ELSE "C08")

Step == /\ l <= Len(Trace)
        /\ l' = l + 1
        /\ LET ev == Trace[l]
               S0 == IF ev.first THEN InitS ELSE S
               f0 == IF ev.first THEN <<>> ELSE fpOf
           IN IF ev.op = "call" THEN CallStep(ev, S0, f0) ELSE OtherStep(ev, S0, f0)

Spec == Init /\ [][Step]_vars

(* The requirement object's own invariants hold along every real trace. *)
AbsOK == IdsDistinct(S) /\ IdsIncreasing(S) /\ IdsKnown(S)

Done == (l = Len(Trace) + 1) =>
          /\ PrintT("TRACE-LINES " \o ToString(Len(Trace)))
          /\ \A f \in fails : PrintT("TRACE-FAIL " \o ToJson(f))
=============================================================================
