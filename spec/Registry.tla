------------------------------ MODULE Registry ------------------------------
(* moq's import registry (internal/registry/registry.go, package.go) as it   *)
(* is written: AddImport, searchImport and the recursive                     *)
(* resolveImportConflict, including the things that make it interesting:     *)
(*   - searchImport ranges over a Go map: when several imports carry the     *)
(*     wanted qualifier ANY of them may be returned (nondeterministic);      *)
(*   - the import being added is not yet in the map while its conflicts are  *)
(*     resolved, so a nested resolution cannot see the alias it was just     *)
(*     given;                                                                *)
(*   - the recursion deepens while two paths have equal "unique names";      *)
(*     uniqueName saturates at the path's depth, so equal sanitised paths    *)
(*     never separate.                                                       *)
(* The operators compute, for a sequence of packages handed to AddImport in  *)
(* order, the SET of all possible final registries (one per resolution of    *)
(* the map-order choices), or Diverged.                                      *)
(*                                                                           *)
(* A package is [path, name, alias, san]: san = the path's components,       *)
(* sanitised and lower-cased, LAST component first (what uniqueName          *)
(* concatenates).  A registry is a function path -> [name, alias, san].      *)
EXTENDS Naturals, Sequences, FiniteSets, TLC

MaxLvl == 12          \* deeper than any path in the universes: reaching it means the recursion never ends

Qual(r) == IF r.alias # "" THEN r.alias ELSE r.name

MinN(a, b) == IF a < b THEN a ELSE b
(* uniqueName(lvl): for i in 0..min(len, lvl+1)-1: name = san[i] + name *)
RECURSIVE Concat(_, _)
Concat(san, k) == IF k = 0 THEN "" ELSE san[k] \o Concat(san, k - 1)
Uniq(r, lvl) == Concat(r.san, MinN(Len(r.san), lvl + 1))

(* A registry is [ok, imp]: imp the map path -> package record; ok = FALSE   *)
(* stands for "the recursion never returned".  A resolution state is         *)
(* [ok, imp, cur]: cur = the import being added, not in the map.  References *)
(* to packages are paths; CUR stands for cur.                                *)
NoPkg    == [path |-> "", name |-> "", alias |-> "", san |-> <<>>]
Diverged == [ok |-> FALSE, imp |-> <<>>]
DivergedSt == [ok |-> FALSE, imp |-> <<>>, cur |-> NoPkg]
CUR == "<cur>"
Rec(st, ref) == IF ref = CUR THEN st.cur ELSE st.imp[ref]
SetAlias(st, ref, a) ==
    IF ref = CUR THEN [st EXCEPT !.cur.alias = a] ELSE [st EXCEPT !.imp[ref].alias = a]
Search(st, name) == {p \in DOMAIN st.imp : Qual(st.imp[p]) = name}

(* resolveImportConflict(a, b, lvl); returns the set of possible states *)
RECURSIVE Resolve(_, _, _, _)
RECURSIVE LoopOne(_, _, _)
(* the loop body for one p of {a, b} *)
LoopOne(st, p, lvl) ==
    LET name == Uniq(Rec(st, p), lvl)
        S    == Search(st, name) IN
    IF S = {} THEN {SetAlias(st, p, name)}
    ELSE UNION { IF c = p THEN {SetAlias(st, p, name)} ELSE Resolve(st, p, c, lvl + 1) : c \in S }

Resolve(st, a, b, lvl) ==
    IF ~st.ok \/ lvl > MaxLvl THEN {DivergedSt}
    ELSE IF Uniq(Rec(st, a), lvl) = Uniq(Rec(st, b), lvl) THEN Resolve(st, a, b, lvl + 1)
    ELSE UNION { IF ~s1.ok THEN {DivergedSt} ELSE LoopOne(s1, b, lvl) : s1 \in LoopOne(st, a, lvl) }

(* AddImport(pkg) on a registry; moqPath = the destination package *)
AddImport(reg, pkg, moqPath) ==
    IF ~reg.ok THEN {Diverged}
    ELSE IF pkg.path = moqPath \/ pkg.path \in DOMAIN reg.imp THEN {reg}
    ELSE LET st == [ok |-> TRUE, imp |-> reg.imp, cur |-> pkg]
             S  == Search(st, Qual(pkg))
             after == IF S = {} THEN {st} ELSE UNION { Resolve(st, CUR, c, 0) : c \in S } IN
         { IF ~s.ok THEN Diverged
           ELSE [ok |-> TRUE, imp |-> [p \in DOMAIN s.imp \cup {pkg.path} |-> IF p = pkg.path THEN s.cur ELSE s.imp[p]]] : s \in after }

RECURSIVE AddAll(_, _, _)
AddAll(regs, pkgs, moqPath) ==
    IF pkgs = <<>> THEN regs
    ELSE AddAll(UNION { AddImport(r, Head(pkgs), moqPath) : r \in regs }, Tail(pkgs), moqPath)

EmptyReg == [ok |-> TRUE, imp |-> <<>>]
Finals(pkgs, moqPath) == AddAll({EmptyReg}, pkgs, moqPath)

(* ---- what the properties need from a final registry ---------------------- *)
UniqueQualifiers(imp) == \A p, q \in DOMAIN imp : p # q => Qual(imp[p]) # Qual(imp[q])   \* C11
Good(F)         == {r \in F : r.ok}
CanDiverge(F)   == \E r \in F : ~r.ok                                                    \* C19
CanDuplicate(F) == \E r \in Good(F) : ~UniqueQualifiers(r.imp)                           \* C11, C01
Confluent(F)    == Cardinality(F) = 1                                                    \* C14
=============================================================================
