---------------------------- MODULE MockSeq ----------------------------
(* All sequential histories of operations on one mock, with the              *)
(* observation the requirement-level object (MockAbs) prescribes for each    *)
(* step.  TLC enumerates them exhaustively up to MaxLen top-level            *)
(* operations; every complete history is printed as one JSON line and        *)
(* replayed step by step on real generated mocks (spec -> code), where       *)
(* each prescribed observation is compared with what the mock does.          *)
(* Serves C03 (delegation), C04 (recording), C07 (nil function), C08         *)
(* (resets).                                                                 *)
EXTENDS MockAbs, TLC, Json

CONSTANTS MaxLen,     \* number of top-level operations per history
          EmitJson    \* TRUE: print complete histories (replay input)

VARIABLES S,          \* MockAbs state
          nilRec,     \* fixed per mock, see MockAbs!CallEffect
          hist        \* the observations, one record per top-level operation

vars == <<S, nilRec, hist>>

ZeroObs == [id |-> 0, outcome |-> "", delegated |-> NoObs, seen |-> NoObs, id2 |-> 0, seen2 |-> NoObs]

Entry(op, m, mode, obs, snap, after) ==
    [op |-> op, m |-> m, mode |-> mode, id |-> obs.id, outcome |-> obs.outcome,
     delegated |-> obs.delegated, seen |-> obs.seen, id2 |-> obs.id2, seen2 |-> obs.seen2,
     snap |-> snap, after |-> after]

Init == /\ S = InitS
        /\ nilRec \in (IF Stub THEN {FALSE} ELSE BOOLEAN)
        /\ hist = <<>>

Call(m, mode) ==
    LET e == CallEffect(S, m, mode, nilRec) IN
    /\ S' = e.S
    /\ hist' = Append(hist, Entry("call", m, mode, e.obs, <<>>, e.S.rec))

Calls(m) ==
    /\ S' = S
    /\ hist' = Append(hist, Entry("calls", m, <<"-">>, ZeroObs, S.rec[m], S.rec))

Reset(m) ==
    /\ WithResets
    /\ S' = ResetOne(S, m)
    /\ hist' = Append(hist, Entry("reset", m, <<"-">>, ZeroObs, <<>>, S'.rec))

ResetAll ==
    /\ WithResets
    /\ S' = ResetEvery(S)
    /\ hist' = Append(hist, Entry("resetall", "", <<"-">>, ZeroObs, <<>>, S'.rec))

Next == /\ Len(hist) < MaxLen
        /\ UNCHANGED nilRec
        /\ \/ \E m \in Methods, mode \in AllModes : Call(m, mode)
           \/ \E m \in Methods : Calls(m)
           \/ \E m \in Methods : Reset(m)
           \/ ResetAll

Spec == Init /\ [][Next]_vars

-----------------------------------------------------------------------------
(* Model-level sanity of the requirement object itself.                      *)
TypeOK == /\ IdsDistinct(S) /\ IdsIncreasing(S) /\ IdsKnown(S)
          /\ Len(hist) <= MaxLen

(* C04/C05 "append-only between resets": a step either keeps each list as a  *)
(* prefix of its successor or is a reset of that list.                       *)
IsPrefix(a, b) == Len(a) <= Len(b) /\ \A i \in DOMAIN a : a[i] = b[i]
AppendOnly == [][\A m \in Methods : IsPrefix(S.rec[m], S'.rec[m]) \/ S'.rec[m] = <<>>]_vars

(* C08: a reset of m leaves every other list alone. *)
ResetIsolated ==
    [][\A m \in Methods : (S'.rec[m] = <<>> /\ S.rec[m] # <<>>) =>
          \/ hist'[Len(hist')].op = "resetall"
          \/ hist'[Len(hist')].op = "reset" /\ hist'[Len(hist')].m = m
          \/ hist'[Len(hist')].op = "call" /\ hist'[Len(hist')].mode[1] \in {"reset", "resetall"}]_vars

Emit == (EmitJson /\ Len(hist) = MaxLen) => PrintT("HIST " \o ToJson([nilRec |-> nilRec, h |-> hist]))
=============================================================================
