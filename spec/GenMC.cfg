SPECIFICATION Spec
CONSTANTS
  MaxPkgs = 3
INVARIANT ConfluentEverywhere
POSTCONDITION Summary
CHECK_DEADLOCK FALSE
