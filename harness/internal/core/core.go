// Package core holds what every check needs: scratch space, the TLC runner,
// the evidence writer, violation/finding reporting.
package core

import (
	"bytes"
	"context"
	"crypto/sha256"
	"encoding/hex"
	"encoding/json"
	"errors"
	"fmt"
	"io"
	"os"
	"os/exec"
	"path/filepath"
	"regexp"
	"sort"
	"strconv"
	"strings"
	"sync"
	"time"
)

// Root is /verif (overridable for snapshots run by `vp run`).
func Root() string {
	if r := os.Getenv("VERIF_ROOT"); r != "" {
		return r
	}
	return "/verif"
}

// Repo is the tree under test.
func Repo() string {
	if r := os.Getenv("VERIF_REPO"); r != "" {
		return r
	}
	return "/repo"
}

func Seed() int64 {
	if s := os.Getenv("VERIF_SEED"); s != "" {
		if n, err := strconv.ParseInt(s, 10, 64); err == nil {
			return n
		}
	}
	return 1
}

// InfraError is an infrastructure failure: exit status 2, never a violation.
type InfraError struct{ Msg string }

func (e *InfraError) Error() string { return e.Msg }

func Infra(format string, a ...any) error { return &InfraError{fmt.Sprintf(format, a...)} }

// ---------------------------------------------------------------- scratch

type Scratch struct {
	Dir string
}

func NewScratch(tag string) (*Scratch, error) {
	base := os.Getenv("VERIF_SCRATCH_BASE")
	if base == "" {
		base = os.TempDir()
	}
	d, err := os.MkdirTemp(base, "verif-"+tag+"-")
	if err != nil {
		return nil, err
	}
	return &Scratch{Dir: d}, nil
}

func (s *Scratch) Path(elem ...string) string {
	return filepath.Join(append([]string{s.Dir}, elem...)...)
}

func (s *Scratch) Cleanup() {
	if os.Getenv("VERIF_KEEP") != "" {
		fmt.Fprintln(os.Stderr, "keeping scratch", s.Dir)
		return
	}
	// go mod cache style read-only dirs do not occur here, plain RemoveAll is enough
	os.RemoveAll(s.Dir)
}

func WriteFile(path string, data []byte) error {
	if err := os.MkdirAll(filepath.Dir(path), 0o755); err != nil {
		return err
	}
	return os.WriteFile(path, data, 0o644)
}

func CopyDir(src, dst string) error {
	return filepath.Walk(src, func(p string, info os.FileInfo, err error) error {
		if err != nil {
			return err
		}
		rel, _ := filepath.Rel(src, p)
		t := filepath.Join(dst, rel)
		if info.IsDir() {
			return os.MkdirAll(t, 0o755)
		}
		b, err := os.ReadFile(p)
		if err != nil {
			return err
		}
		return os.WriteFile(t, b, 0o644)
	})
}

// GoEnv is the environment for every go command the harness runs. /repo needs
// go1.24 while the default go is older: the cached go1.24.0 toolchain is put
// first on PATH with GOTOOLCHAIN=local (GOSUMDB=off would break an automatic
// toolchain switch); if it is missing we fall back to GOTOOLCHAIN=auto.
const toolchainBin = "/root/go/pkg/mod/golang.org/toolchain@v0.0.1-go1.24.0.linux-amd64/bin"

func GoEnv(extra ...string) []string {
	env := []string{}
	path := os.Getenv("PATH")
	for _, e := range os.Environ() {
		if strings.HasPrefix(e, "GOFLAGS=") || strings.HasPrefix(e, "GOPROXY=") ||
			strings.HasPrefix(e, "GOSUMDB=") || strings.HasPrefix(e, "GOTOOLCHAIN=") ||
			strings.HasPrefix(e, "GOWORK=") || strings.HasPrefix(e, "PATH=") {
			continue
		}
		env = append(env, e)
	}
	env = append(env, "GOFLAGS=-mod=mod", "GOPROXY=off", "GOWORK=off")
	if _, err := os.Stat(filepath.Join(toolchainBin, "go")); err == nil {
		env = append(env, "PATH="+toolchainBin+":"+path, "GOTOOLCHAIN=local", "GOSUMDB=off")
	} else {
		env = append(env, "PATH="+path, "GOTOOLCHAIN=auto")
	}
	return append(env, extra...)
}

// Run runs a command with a timeout and returns combined output.
func Run(dir string, timeout time.Duration, env []string, name string, args ...string) (string, error) {
	ctx, cancel := context.WithTimeout(context.Background(), timeout)
	defer cancel()
	cmd := exec.CommandContext(ctx, name, args...)
	cmd.Dir = dir
	if env != nil {
		cmd.Env = env
	}
	var out bytes.Buffer
	cmd.Stdout = &out
	cmd.Stderr = &out
	err := cmd.Run()
	if ctx.Err() == context.DeadlineExceeded {
		return out.String(), fmt.Errorf("timeout after %s: %s %v", timeout, name, args)
	}
	return out.String(), err
}

// BuildMoq builds the moq CLI from the repository's current working tree.
func BuildMoq(dst string) error {
	out, err := Run(Repo(), 5*time.Minute, GoEnv(), "go", "build", "-o", dst, ".")
	if err != nil {
		return Infra("building moq from %s failed: %v\n%s", Repo(), err, out)
	}
	return nil
}

// ---------------------------------------------------------------- TLC

type TLCResult struct {
	Output     string
	ExitCode   int
	Generated  int64
	Distinct   int64
	Depth      int
	WallS      float64
	Violated   bool   // an invariant/property/postcondition was violated
	ViolatedBy string // its name when TLC prints it
	Cmd        string
	Coverage0  []string // actions never taken (only with Coverage)
}

type TLCOpts struct {
	Module    string // Foo (Foo.tla in spec dir)
	Cfg       string // file name of the cfg in the spec dir, or inline text when CfgText != ""
	CfgText   string
	Workers   int
	Timeout   time.Duration
	Files     map[string][]byte // extra files placed next to the spec (traces, universes)
	Simulate  string            // e.g. "num=1000" -> -simulate num=1000
	Depth     int
	DFS       bool // StateDeque queue
	Coverage  bool
	ExtraArgs []string
	Seed      int64
	KeepFiles []string // files to read back from the run directory
	ReadBack  map[string][]byte
	Deadlock  bool // check deadlock (default off => -deadlock flag passed)
	HeapGB    int
}

var (
	reStates = regexp.MustCompile(`(\d+) states generated, (\d+) distinct states found`)
	reDepth  = regexp.MustCompile(`The depth of the complete state graph search is (\d+)`)
	reInv    = regexp.MustCompile(`Invariant (\S+) is violated|Action property (\S+) is violated|Temporal properties were violated|POSTCONDITION|Error: Deadlock reached|property (\S+) is violated`)
	tlcMu    sync.Mutex
	tlcSeq   int
)

// RunTLC runs TLC on a private copy of /verif/spec. Exit codes: 0 ok, 12 safety
// violation, 13 liveness, 11 deadlock; anything else is reported to the caller
// as infrastructure trouble via err.
func RunTLC(sc *Scratch, o *TLCOpts) (*TLCResult, error) {
	tlcMu.Lock()
	tlcSeq++
	n := tlcSeq
	tlcMu.Unlock()
	dir := sc.Path(fmt.Sprintf("tlc-%d-%s", n, o.Module))
	if err := CopyDir(filepath.Join(Root(), "spec"), dir); err != nil {
		return nil, Infra("copy spec: %v", err)
	}
	for name, data := range o.Files {
		if err := WriteFile(filepath.Join(dir, name), data); err != nil {
			return nil, err
		}
	}
	cfg := o.Cfg
	if o.CfgText != "" {
		cfg = fmt.Sprintf("inline-%d.cfg", n)
		if err := WriteFile(filepath.Join(dir, cfg), []byte(o.CfgText)); err != nil {
			return nil, err
		}
	}
	workers := o.Workers
	if workers <= 0 {
		workers = 1
	}
	args := []string{"-XX:+UseParallelGC", "-Xss64m"}
	heap := o.HeapGB
	if heap <= 0 {
		heap = 6
	}
	args = append(args, fmt.Sprintf("-Xmx%dg", heap))
	if o.DFS {
		args = append(args, "-Dtlc2.tool.queue.IStateQueue=StateDeque")
	}
	args = append(args, "-cp", "/opt/veriftools/tla/tla2tools.jar:/opt/veriftools/tla/CommunityModules-deps.jar", "tlc2.TLC")
	args = append(args, "-workers", strconv.Itoa(workers), "-metadir", filepath.Join(dir, "meta"), "-config", cfg)
	if !o.Deadlock {
		args = append(args, "-deadlock")
	}
	if o.Simulate != "" {
		args = append(args, "-simulate", o.Simulate)
	}
	if o.Depth > 0 {
		args = append(args, "-depth", strconv.Itoa(o.Depth))
	}
	if o.Coverage {
		args = append(args, "-coverage", "1")
	}
	if o.Seed != 0 {
		args = append(args, "-seed", strconv.FormatInt(o.Seed, 10))
	}
	args = append(args, "-noGenerateSpecTE")
	args = append(args, o.ExtraArgs...)
	args = append(args, o.Module)
	to := o.Timeout
	if to == 0 {
		to = 10 * time.Minute
	}
	t0 := time.Now()
	ctx, cancel := context.WithTimeout(context.Background(), to)
	defer cancel()
	cmd := exec.CommandContext(ctx, javaBin(), args...)
	cmd.Dir = dir
	env := []string{}
	for _, e := range os.Environ() {
		if strings.HasPrefix(e, "JAVA_TOOL_OPTIONS=") {
			continue
		}
		env = append(env, e)
	}
	cmd.Env = env
	var out bytes.Buffer
	cmd.Stdout = &out
	cmd.Stderr = &out
	err := cmd.Run()
	res := &TLCResult{Output: out.String(), WallS: time.Since(t0).Seconds(), Cmd: "java " + strings.Join(args, " ")}
	if ctx.Err() == context.DeadlineExceeded {
		return res, Infra("TLC timeout after %s (%s %s)", to, o.Module, cfg)
	}
	if err != nil {
		var ee *exec.ExitError
		if errors.As(err, &ee) {
			res.ExitCode = ee.ExitCode()
		} else {
			return res, Infra("cannot run java/TLC: %v", err)
		}
	}
	if m := reStates.FindAllStringSubmatch(res.Output, -1); len(m) > 0 {
		last := m[len(m)-1]
		res.Generated, _ = strconv.ParseInt(last[1], 10, 64)
		res.Distinct, _ = strconv.ParseInt(last[2], 10, 64)
	}
	if m := reDepth.FindStringSubmatch(res.Output); m != nil {
		res.Depth, _ = strconv.Atoi(m[1])
	}
	if o.Coverage {
		res.Coverage0 = parseZeroCoverage(res.Output)
	}
	for _, k := range o.KeepFiles {
		if b, err := os.ReadFile(filepath.Join(dir, k)); err == nil {
			if o.ReadBack == nil {
				o.ReadBack = map[string][]byte{}
			}
			o.ReadBack[k] = b
		}
	}
	switch res.ExitCode {
	case 0:
	case 10, 11, 12, 13:
		res.Violated = true
		if m := reInv.FindStringSubmatch(res.Output); m != nil {
			res.ViolatedBy = strings.TrimSpace(m[0])
		}
	default:
		return res, Infra("TLC exit %d on %s/%s:\n%s", res.ExitCode, o.Module, cfg, tail(res.Output, 60))
	}
	if os.Getenv("VERIF_KEEP") == "" {
		os.RemoveAll(filepath.Join(dir, "meta"))
	}
	return res, nil
}

var reCov = regexp.MustCompile(`^<(\w+) line \d+, col \d+ to line \d+, col \d+ of module (\w+)>: (\d+):(\d+)`)

func parseZeroCoverage(out string) []string {
	var z []string
	for _, ln := range strings.Split(out, "\n") {
		if m := reCov.FindStringSubmatch(strings.TrimSpace(ln)); m != nil {
			if m[3] == "0" && m[4] == "0" {
				z = append(z, m[2]+"!"+m[1])
			}
		}
	}
	sort.Strings(z)
	return z
}

func javaBin() string {
	if j := os.Getenv("VERIF_JAVA"); j != "" {
		return j
	}
	return "java"
}

func tail(s string, n int) string {
	l := strings.Split(s, "\n")
	if len(l) > n {
		l = l[len(l)-n:]
	}
	return strings.Join(l, "\n")
}

func Tail(s string, n int) string { return tail(s, n) }

// PrintedLines extracts the values TLC printed with PrintT("TAG ..."): lines
// that start with the tag (TLC prints strings with surrounding quotes).
func PrintedLines(out, tag string) []string {
	var r []string
	for _, ln := range strings.Split(out, "\n") {
		ln = strings.TrimSpace(ln)
		ln = strings.TrimPrefix(ln, `"`)
		if strings.HasPrefix(ln, tag) {
			ln = strings.TrimSuffix(ln, `"`)
			r = append(r, strings.TrimSpace(strings.TrimPrefix(ln, tag)))
		}
	}
	return r
}

// ---------------------------------------------------------------- evidence

type Evidence struct {
	PropertyID  string         `json:"property_id"`
	Tier        string         `json:"tier"`
	Seed        int64          `json:"seed"`
	Level       string         `json:"level"`
	Coverage    map[string]any `json:"coverage"`
	Assumptions []string       `json:"assumptions"`
	WallS       float64        `json:"wall_s"`
	Violations  int            `json:"violations"`
	start       time.Time
	mu          sync.Mutex
	distinct    map[string]bool
}

func NewEvidence(id, tier, level string) *Evidence {
	return &Evidence{PropertyID: id, Tier: tier, Seed: Seed(), Level: level,
		Coverage: map[string]any{"evaluations": 0, "distinct_nontrivial": 0, "samples": []any{}},
		start:    time.Now(), distinct: map[string]bool{}}
}

func (e *Evidence) Add(key string, n int64) {
	e.mu.Lock()
	defer e.mu.Unlock()
	cur, _ := e.Coverage[key].(int64)
	if c, ok := e.Coverage[key].(int); ok {
		cur = int64(c)
	}
	e.Coverage[key] = cur + n
}

func (e *Evidence) Set(key string, v any) {
	e.mu.Lock()
	defer e.mu.Unlock()
	e.Coverage[key] = v
}

// Distinct counts a non-trivial case by a key identifying it.
func (e *Evidence) Distinct(key string) {
	e.mu.Lock()
	defer e.mu.Unlock()
	h := sha256.Sum256([]byte(key))
	e.distinct[hex.EncodeToString(h[:8])] = true
}

func (e *Evidence) Sample(v any) {
	e.mu.Lock()
	defer e.mu.Unlock()
	s, _ := e.Coverage["samples"].([]any)
	if len(s) < 6 {
		e.Coverage["samples"] = append(s, v)
	}
}

func (e *Evidence) Assume(s string) {
	e.mu.Lock()
	defer e.mu.Unlock()
	for _, a := range e.Assumptions {
		if a == s {
			return
		}
	}
	e.Assumptions = append(e.Assumptions, s)
}

func (e *Evidence) Note(key, s string) {
	e.mu.Lock()
	defer e.mu.Unlock()
	l, _ := e.Coverage[key].([]string)
	if len(l) < 40 {
		e.Coverage[key] = append(l, s)
	}
}

func (e *Evidence) AddTLC(name string, r *TLCResult) {
	if r == nil {
		return
	}
	e.Add("states", r.Distinct)
	e.Add("transitions", r.Generated)
	e.mu.Lock()
	runs, _ := e.Coverage["tlc_runs"].([]any)
	e.Coverage["tlc_runs"] = append(runs, map[string]any{"run": name, "generated": r.Generated, "distinct": r.Distinct,
		"depth": r.Depth, "wall_s": round2(r.WallS), "exit": r.ExitCode, "zero_coverage": r.Coverage0})
	e.mu.Unlock()
}

func round2(f float64) float64 { return float64(int(f*100)) / 100 }

func (e *Evidence) Write() error {
	e.mu.Lock()
	defer e.mu.Unlock()
	e.WallS = round2(time.Since(e.start).Seconds())
	e.Coverage["distinct_nontrivial"] = len(e.distinct)
	for _, k := range []string{"evaluations", "states", "transitions", "traces_validated_against_impl"} {
		if v, ok := e.Coverage[k].(int64); ok {
			e.Coverage[k] = v
		}
	}
	if e.Assumptions == nil {
		e.Assumptions = []string{}
	}
	b, err := json.MarshalIndent(e, "", " ")
	if err != nil {
		return err
	}
	return WriteFile(filepath.Join(Root(), "evidence", e.PropertyID+".json"), append(b, '\n'))
}

// ---------------------------------------------------------------- verdicts

// Reporter collects violations and known findings for one check run.
type Reporter struct {
	ID       string
	mu       sync.Mutex
	n        int
	Out      io.Writer
	known    []Finding
	seenKF   map[string]bool
	Drift    []string
	MaxPrint int
}

type Finding struct {
	ID       string          `json:"id"`
	Property string          `json:"property"`
	Also     []string        `json:"also,omitempty"`
	Status   string          `json:"status"` // open | fixed
	Commit   string          `json:"commit,omitempty"`
	What     string          `json:"what"`
	Match    json.RawMessage `json:"match,omitempty"` // machine-evaluable description of the failing input
	Input    json.RawMessage `json:"input,omitempty"`
	Expect   string          `json:"expect,omitempty"`
}

type FindingsFile struct {
	Findings []Finding `json:"findings"`
	Fixed    []string  `json:"fixed_log"`
}

func LoadFindings() (*FindingsFile, error) {
	b, err := os.ReadFile(filepath.Join(Root(), "known-findings.json"))
	if err != nil {
		if os.IsNotExist(err) {
			return &FindingsFile{}, nil
		}
		return nil, err
	}
	var f FindingsFile
	if err := json.Unmarshal(b, &f); err != nil {
		return nil, Infra("known-findings.json: %v", err)
	}
	return &f, nil
}

func NewReporter(id string) *Reporter {
	return &Reporter{ID: id, Out: os.Stdout, seenKF: map[string]bool{}, MaxPrint: 20}
}

// Violation writes the replay file and prints the VIOLATION line.
func (r *Reporter) Violation(prop string, replay any) {
	r.mu.Lock()
	defer r.mu.Unlock()
	r.n++
	if r.n > r.MaxPrint {
		return
	}
	dir := filepath.Join(Root(), "replay")
	os.MkdirAll(dir, 0o755)
	p := filepath.Join(dir, fmt.Sprintf("%s-%d-%d.json", prop, Seed(), r.n))
	b, _ := json.MarshalIndent(replay, "", " ")
	os.WriteFile(p, b, 0o644)
	fmt.Fprintf(r.Out, "VIOLATION property=%s replay=%s\n", prop, p)
}

func (r *Reporter) Known(kf Finding, what string) {
	r.mu.Lock()
	defer r.mu.Unlock()
	if r.seenKF[kf.ID] {
		return
	}
	r.seenKF[kf.ID] = true
	fmt.Fprintf(r.Out, "KNOWN-FINDING: property=%s %s: %s\n", r.ID, kf.ID, what)
}

func (r *Reporter) DriftNote(s string) {
	r.mu.Lock()
	defer r.mu.Unlock()
	if len(r.Drift) < 50 {
		r.Drift = append(r.Drift, s)
	}
	if len(r.Drift) <= 10 {
		fmt.Fprintf(r.Out, "SPEC-DRIFT: %s\n", s)
	}
}

func (r *Reporter) Count() int {
	r.mu.Lock()
	defer r.mu.Unlock()
	return r.n
}

func Hash(parts ...string) string {
	h := sha256.New()
	for _, p := range parts {
		h.Write([]byte(p))
		h.Write([]byte{0})
	}
	return hex.EncodeToString(h.Sum(nil)[:8])
}
