package rt

import (
	"bytes"
	"encoding/json"
	"fmt"
	"math/rand"
	"os"
	"path/filepath"
	"sort"
	"strings"
	"sync"
	"time"

	"verif/internal/core"
)

type POp struct {
	Op   string   `json:"op"`
	M    string   `json:"m,omitempty"`
	Cb   []string `json:"cb,omitempty"`
	Flag string   `json:"flag,omitempty"`
}

type Scenario struct {
	Name    string
	Progs   [][]POp
	Resets  bool // needs -with-resets
	Methods int  // abstract methods used (1 or 2)
	NoStub  bool // only meaningful without -stub (nil function panics)
	Tier    string
}

func call(m string, cb ...string) POp {
	if len(cb) == 0 {
		cb = []string{"ret"}
	}
	return POp{Op: "call", M: m, Cb: cb}
}
func calls(m string) POp    { return POp{Op: "calls", M: m} }
func reset(m string) POp    { return POp{Op: "reset", M: m} }
func resetall() POp         { return POp{Op: "resetall"} }
func setflag(f string) POp  { return POp{Op: "setflag", Flag: f} }
func prog(ops ...POp) []POp { return ops }

// Scenarios: the concurrent programs explored exhaustively on real mocks and,
// with the same constants, on MockImpl by TLC.
func Scenarios(tier string) []Scenario {
	s := []Scenario{
		{Name: "call||call", Methods: 1, Progs: [][]POp{prog(call("A")), prog(call("A"))}},
		{Name: "call||calls", Methods: 1, Progs: [][]POp{prog(call("A")), prog(calls("A"))}},
		{Name: "call;call||calls;calls", Methods: 1, Progs: [][]POp{prog(call("A"), call("A")), prog(calls("A"), calls("A"))}},
		{Name: "call||reset", Methods: 1, Resets: true, Progs: [][]POp{prog(call("A")), prog(reset("A"))}},
		{Name: "call||resetall", Methods: 2, Resets: true, Progs: [][]POp{prog(call("A"), call("B")), prog(resetall())}},
		{Name: "reset||calls", Methods: 1, Resets: true, Progs: [][]POp{prog(call("A"), reset("A")), prog(calls("A"))}},
		{Name: "call;reset;call||calls", Methods: 1, Resets: true, Progs: [][]POp{prog(call("A"), reset("A"), call("A")), prog(calls("A"))}},
		{Name: "call;resetall;call||calls", Methods: 1, Resets: true, Progs: [][]POp{prog(call("A"), resetall(), call("A")), prog(calls("A"))}},
		{Name: "resetall||resetall", Methods: 2, Resets: true, Progs: [][]POp{prog(call("A"), resetall()), prog(resetall(), calls("B"))}},
		{Name: "cb-calls||call", Methods: 1, Progs: [][]POp{prog(call("A", "calls", "A")), prog(call("A"))}},
		{Name: "cb-recurse||calls", Methods: 1, Progs: [][]POp{prog(call("A", "call", "A")), prog(calls("A"))}},
		{Name: "cb-other||call", Methods: 2, Progs: [][]POp{prog(call("A", "call", "B")), prog(call("B", "calls", "A"))}},
		{Name: "cb-blocked||all", Methods: 1, Progs: [][]POp{prog(call("A", "wait", "F")), prog(call("A"), calls("A"), setflag("F"))}},
		{Name: "cb-blocked||reset", Methods: 1, Resets: true, Progs: [][]POp{prog(call("A", "wait", "F")), prog(reset("A"), call("A"), setflag("F"))}},
		{Name: "cb-blocked||resetall", Methods: 2, Resets: true, Progs: [][]POp{prog(call("A", "wait", "F")), prog(resetall(), calls("A"), setflag("F"))}},
		{Name: "cb-reset||call", Methods: 1, Resets: true, Progs: [][]POp{prog(call("A", "reset", "A")), prog(call("A"))}},
		{Name: "cb-resetall||call", Methods: 2, Resets: true, Progs: [][]POp{prog(call("A", "resetall")), prog(call("B"))}},
		{Name: "cb-panic;calls", Methods: 1, Progs: [][]POp{prog(call("A", "panic"), calls("A"), call("A"))}},
		{Name: "nil;calls", Methods: 1, Progs: [][]POp{prog(call("A", "nil"), calls("A"), call("A", "nil"))}},
		{Name: "nil;reset", Methods: 2, Resets: true, Progs: [][]POp{prog(call("A", "nil"), reset("A"), call("B"), resetall())}},
		{Name: "nil||calls", Methods: 1, Progs: [][]POp{prog(call("A", "nil")), prog(calls("A"), call("A", "nil"))}},
		{Name: "independent", Methods: 2, Progs: [][]POp{prog(call("A"), calls("B")), prog(call("B"), calls("A"))}},
		{Name: "call|reset|resetall", Methods: 1, Resets: true, Progs: [][]POp{prog(call("A")), prog(reset("A")), prog(resetall())}},
		{Name: "call|call|calls", Methods: 1, Progs: [][]POp{prog(call("A")), prog(call("A")), prog(calls("A"))}},
	}
	s = append(s, randomScenarios(tier)...)
	if tier == "thorough" {
		s = append(s,
			Scenario{Name: "3x call", Methods: 1, Tier: "thorough", Progs: [][]POp{prog(call("A")), prog(call("A")), prog(calls("A"))}},
			Scenario{Name: "3x mixed", Methods: 2, Resets: true, Tier: "thorough", Progs: [][]POp{prog(call("A")), prog(resetall()), prog(call("B"), calls("A"))}},
			Scenario{Name: "call3||calls3", Methods: 1, Tier: "thorough", Progs: [][]POp{prog(call("A"), call("A"), call("A")), prog(calls("A"), calls("A"), calls("A"))}},
			Scenario{Name: "cb-recurse||reset;call", Methods: 1, Resets: true, Tier: "thorough", Progs: [][]POp{prog(call("A", "call", "A"), calls("A")), prog(reset("A"), call("A"))}},
			Scenario{Name: "cb-blocked x2", Methods: 2, Tier: "thorough", Progs: [][]POp{prog(call("A", "wait", "F")), prog(call("B", "wait", "G")), prog(call("A"), call("B"), setflag("F"), setflag("G"))}},
		)
	}
	return s
}

type concJob struct {
	Mock     string            `json:"mock"`
	Scenario string            `json:"scenario"`
	Map      map[string]string `json:"map"`
	Progs    [][]POp           `json:"progs"`
	MaxRuns  int               `json:"maxRuns"`
	Seed     int64             `json:"seed"`
	Graph    bool              `json:"graph"`
	AllGates bool              `json:"allGates"`
}

type concResult struct {
	Mock       string         `json:"mock"`
	Scenario   string         `json:"scenario"`
	Runs       int            `json:"runs"`
	Pruned     int            `json:"pruned"`
	States     int            `json:"states"`
	Steps      int            `json:"steps"`
	Exhaustive bool           `json:"exhaustive"`
	Histories  map[string]int `json:"histories"`
	Races      []string       `json:"races"`
	Deadlocks  int            `json:"deadlocks"`
	DeadlockEx []string       `json:"deadlockEx"`
	Stuck      []string       `json:"stuck"`
	HeldAtCb   []string       `json:"heldAtCb"`
	Fatal      []string       `json:"fatal"`
	ForeignG   int            `json:"foreignG"`
	Stale      []string       `json:"stale"`
	WrongArgs  []string       `json:"wrongArgs"`
	Infra      string         `json:"infra"`
}

// BuildSched makes the sched-build copy of the module and compiles its driver.
func (m *Module) BuildSched(sc *core.Scratch) (string, string, int, error) {
	dst := sc.Path("schedmod")
	if err := core.CopyDir(m.Dir, dst); err != nil {
		return "", "", 0, err
	}
	yields := 0
	seen := map[string]bool{}
	for _, mk := range m.Mocks {
		rel, _ := filepath.Rel(m.Dir, mk.File)
		if seen[rel] {
			continue
		}
		seen[rel] = true
		src, err := os.ReadFile(mk.File)
		if err != nil {
			return "", "", 0, err
		}
		out, n, err := RewriteForSched(src, ModName+"/mockdrv")
		if err != nil {
			return "", "", 0, core.Infra("cannot rewrite %s for the sched build: %v", rel, err)
		}
		yields += n
		if err := core.WriteFile(filepath.Join(dst, rel), out); err != nil {
			return "", "", 0, err
		}
	}
	bin := filepath.Join(dst, "drvsched.bin")
	out, err := core.Run(dst, 10*time.Minute, core.GoEnv(), "go", "build", "-o", bin, "./drv")
	if err != nil && !strings.Contains(out, "mocks_gen.go") {
		out, err = core.Run(dst, 10*time.Minute, core.GoEnv(), "go", "build", "-o", bin, "./drv")
	}
	if err != nil {
		if !strings.Contains(out, "mocks_gen.go") {
			return "", out, yields, core.Infra("building the sched driver failed (not in generated code):\n%s", core.Tail(out, 30))
		}
		return "", out, yields, core.Infra("sched build does not compile:\n%s", core.Tail(out, 30))
	}
	return bin, dst, yields, nil
}

// concMappings picks method mappings for concurrent scenarios: rotating through
// the interface's methods so that every method is A at least once per variant.
func concMappings(methods []string, n int) []map[string]string {
	var out []map[string]string
	if len(methods) < n {
		return nil
	}
	if n == 1 {
		for _, x := range methods {
			out = append(out, map[string]string{"A": x})
		}
		return out
	}
	for i := range methods {
		out = append(out, map[string]string{"A": methods[i], "B": methods[(i+1)%len(methods)]})
		if len(methods) == 2 {
			break
		}
	}
	return out
}

// RunConc is the check behind C05 and C06.
func RunConc(prop, tier string, extra ...func(sc *core.Scratch, ev *core.Evidence, rep *core.Reporter) (int, error)) (int, error) {
	ev := core.NewEvidence(prop, tier, "model_checking")
	rep := core.NewReporter(prop)
	sc, err := core.NewScratch("conc-" + prop)
	if err != nil {
		return 2, err
	}
	defer sc.Cleanup()
	code, err := runConc(prop, tier, sc, ev, rep)
	for _, x := range extra {
		if err != nil || code == 2 {
			break
		}
		c2, e2 := x(sc, ev, rep)
		if e2 != nil {
			code, err = 2, e2
		} else if c2 > code {
			code = c2
		}
	}
	ev.Violations = rep.Count()
	if werr := ev.Write(); werr != nil && err == nil {
		err = werr
	}
	return code, err
}

func runConc(prop, tier string, sc *core.Scratch, ev *core.Evidence, rep *core.Reporter) (int, error) {
	moq := sc.Path("moq")
	if err := core.BuildMoq(moq); err != nil {
		return 2, err
	}
	mod, err := Generate(sc, moq, AllVariants())
	if err != nil {
		return corpusBroken(prop, rep, "moq fails on the run-time corpus", err.Error())
	}
	return runConcOn(prop, tier, sc, ev, rep, mod)
}

// corpusBroken: the run-time corpus is plain, valid Go that moq handles; when
// moq rejects it or its output no longer compiles, no operation on those mocks
// can behave as the property demands. That is a real-code witness.
func corpusBroken(prop string, rep *core.Reporter, kind, detail string) (int, error) {
	rep.Violation(prop, map[string]any{"kind": kind, "detail": core.Tail(detail, 40),
		"how": "the real moq was run on the run-time corpus (internal/rt/corpus.go) under all 16 flag/destination variants and the result compiled"})
	return 1, nil
}

func runConcOn(prop, tier string, sc *core.Scratch, ev *core.Evidence, rep *core.Reporter, mod *Module) (int, error) {
	bin, dir, yields, err := mod.BuildSched(sc)
	if err != nil {
		if _, isInfra := err.(*core.InfraError); isInfra && strings.Contains(err.Error(), "does not compile") {
			return corpusBroken(prop, rep, "the generated mocks of the run-time corpus do not compile", err.Error())
		}
		return 2, err
	}
	ev.Set("yield_points_inserted", yields)
	if yields == 0 {
		return 2, core.Infra("no record access found in generated code: the sched build would be vacuous")
	}
	// race build in parallel with the schedule exploration
	var raceWG sync.WaitGroup
	var raceRes *raceOutcome
	var raceErr error
	if prop == "C05" {
		raceWG.Add(1)
		go func() {
			defer raceWG.Done()
			raceRes, raceErr = runRace(mod, tier)
		}()
	}
	scenarios := Scenarios(tier)
	if prop == "C03" {
		var few []Scenario
		for _, s := range scenarios {
			if s.Name == "call||call" || s.Name == "cb-recurse||calls" || s.Name == "cb-other||call" || s.Name == "call|call|calls" {
				few = append(few, s)
			}
		}
		scenarios = few
	}
	var jobs []concJob
	maxRuns := 30000
	if tier == "thorough" {
		maxRuns = 60000
	}
	for vi, mk := range mod.Mocks {
		for si, scn := range scenarios {
			if scn.Resets && !mk.Variant.Resets {
				continue
			}
			mps := concMappings(mk.Methods, scn.Methods)
			if len(mps) == 0 {
				continue
			}
			// quick: one mapping per shape class of the subject method A (rotating
			// inside the class); thorough: every method as A
			for _, mp := range pickMappings(mod, mk, mps, tier, si+vi+int(core.Seed())) {
				jobs = append(jobs, concJob{Mock: mk.Key, Scenario: scn.Name, Map: mp, Progs: scn.Progs, MaxRuns: maxRuns, Seed: core.Seed(),
					AllGates: tier == "thorough" && len(mk.Methods) <= 6})
			}
		}
	}
	// split over processes
	nproc := 16
	chunks := make([][]any, nproc)
	for i, j := range jobs {
		chunks[i%nproc] = append(chunks[i%nproc], j)
	}
	results := make([][]concResult, nproc)
	var wg sync.WaitGroup
	var mu sync.Mutex
	var drvErr error
	for i := range chunks {
		if len(chunks[i]) == 0 {
			continue
		}
		wg.Add(1)
		go func(i int) {
			defer wg.Done()
			limit := 40 * time.Minute
			if tier == "thorough" {
				limit = 150 * time.Minute // a loaded machine must not turn the deep tier into an infrastructure failure
			}
			r, stderr, err := RunDriver[concResult](bin, dir, "sched", chunks[i], limit)
			mu.Lock()
			defer mu.Unlock()
			if err != nil || len(r) != len(chunks[i]) {
				if drvErr == nil {
					drvErr = core.Infra("sched driver failed: %v (%d of %d results)\n%s", err, len(r), len(chunks[i]), core.Tail(stderr, 30))
				}
				return
			}
			results[i] = r
		}(i)
	}
	wg.Wait()
	if drvErr != nil {
		return 2, drvErr
	}
	violations := 0
	distinctHist := map[string][]string{} // history -> where seen
	totalRuns, totalStates := 0, 0
	for i := range results {
		for k, r := range results[i] {
			job := chunks[i][k].(concJob)
			if r.Infra != "" {
				return 2, core.Infra("sched job %s/%s: %s", r.Mock, r.Scenario, r.Infra)
			}
			totalRuns += r.Runs
			totalStates += r.States
			ev.Add("evaluations", int64(r.Runs))
			ev.Add("gate_steps", int64(r.Steps))
			ev.Distinct(r.Mock + "|" + r.Scenario + "|" + fmt.Sprint(job.Map))
			if !r.Exhaustive {
				ev.Note("not_exhaustive", r.Mock+" "+r.Scenario)
			}
			where := fmt.Sprintf("%s %s %v", r.Mock, r.Scenario, job.Map)
			witness := func(kind string, detail any) {
				rep.Violation(prop, map[string]any{"kind": kind, "mock": r.Mock, "scenario": r.Scenario, "map": job.Map, "progs": job.Progs, "detail": detail,
					"how": "controlled scheduler, all schedules of the scenario on the real generated mock"})
				violations++
			}
			if prop == "C05" {
				if len(r.Races) > 0 {
					witness("data-race: two goroutines poised at conflicting record accesses", r.Races)
				}
				if len(r.Fatal) > 0 {
					witness("crash inside generated code", r.Fatal)
				}
				if len(r.Stale) > 0 {
					witness("a slice returned by an accessor changed afterwards", r.Stale)
				}
				if len(r.WrongArgs) > 0 {
					witness("under concurrency a configured function received another call's arguments", r.WrongArgs)
				}
			}
			if prop == "C05" && (r.Deadlocks > 0 || len(r.Stuck) > 0) {
				// "any number of goroutines may concurrently call ...": operations that never return
				// never reach the quiescent state the property talks about
				witness("concurrent operations never finish (deadlock / blocked for good)", map[string]any{"schedules": r.Deadlocks, "examples": append(append([]string{}, r.DeadlockEx...), r.Stuck...)})
			}
			if prop == "C03" && len(r.WrongArgs) > 0 {
				witness("a configured function received other arguments than its caller passed", r.WrongArgs)
			}
			if prop == "C06" {
				if r.Deadlocks > 0 {
					witness("deadlock", map[string]any{"schedules": r.Deadlocks, "examples": r.DeadlockEx})
				}
				if len(r.Stuck) > 0 {
					witness("an operation never returns: blocked on something other than the mock's locks (reproduced on a fresh mock)", r.Stuck)
				}
				if len(r.HeldAtCb) > 0 {
					witness("lock held while the configured function runs", r.HeldAtCb)
				}
				if len(r.Fatal) > 0 {
					witness("crash inside generated code", r.Fatal)
				}
			}
			for h := range r.Histories {
				if len(distinctHist[h]) < 3 {
					distinctHist[h] = append(distinctHist[h], where)
				}
			}
			if len(ev.Coverage["samples"].([]any)) < 4 && len(r.Histories) > 0 {
				for h := range r.Histories {
					ev.Sample(map[string]any{"mock": r.Mock, "scenario": r.Scenario, "map": job.Map, "schedules": r.Runs, "states": r.States, "a_history": json.RawMessage(h)})
					break
				}
			}
		}
	}
	ev.Set("schedules_executed", totalRuns)
	ev.Set("real_states_visited", totalStates)
	// the template's algorithm as a TLA+ model: properties by TLC, and state-set
	// conformance between the model and real mocks
	if prop != "C03" {
		if err := implConformance(sc, ev, rep, mod, bin, dir, tier); err != nil {
			return 2, err
		}
	}
	ev.Set("spec_drift", rep.Drift)
	// linearizability of every distinct history (C05)
	if prop == "C05" {
		n, err := checkLin(sc, ev, rep, prop, distinctHist)
		if err != nil {
			return 2, err
		}
		violations += n
		raceWG.Wait()
		if raceErr != nil {
			return 2, raceErr
		}
		if raceRes != nil {
			ev.Set("race_build", raceRes.Summary)
			if len(raceRes.Hung) > 0 {
				ev.Set("race_build_hung", raceRes.Hung)
				rep.DriftNote(fmt.Sprintf("race build: free-running goroutines never finished in %d jobs (e.g. %s): a hang of generated code, judged by the check of C06", len(raceRes.Hung), raceRes.Hung[0]))
			}
			for _, r := range raceRes.Reports {
				rep.Violation(prop, map[string]any{"kind": "race detector report in generated code", "report": r})
				violations++
			}
		}
	}
	if prop == "C05" && (tier == "thorough" || os.Getenv("VERIF_APALACHE") != "") {
		inductive(sc, ev)
	}
	ev.Set("rule", "a case is one (mock variant, scenario, method mapping) triple whose schedules are all executed on the real mock (state-pruned depth-first search); distinct by that triple")
	ev.Set("exhaustive", len(anyNote(ev, "not_exhaustive")) == 0)
	ev.Assume("preemption only at synchronisation operations, record accesses and operation starts (sub-statement granularity for the append); weaker-memory effects are left to the race detector")
	if violations > 0 {
		return 1, nil
	}
	return 0, nil
}

func anyNote(ev *core.Evidence, k string) []string {
	l, _ := ev.Coverage[k].([]string)
	return l
}

// checkLin validates all distinct non-deadlocked histories with TLC (MockLin).
func checkLin(sc *core.Scratch, ev *core.Evidence, rep *core.Reporter, prop string, hist map[string][]string) (int, error) {
	type item struct {
		h     string
		where []string
	}
	byN := map[int][]item{}
	for h, w := range hist {
		var ch struct {
			Ops      []map[string]any `json:"ops"`
			Deadlock bool             `json:"deadlock"`
		}
		json.Unmarshal([]byte(h), &ch)
		if ch.Deadlock || len(ch.Ops) == 0 {
			continue
		}
		n := 1
		if strings.Contains(h, `"m":"B"`) {
			n = 2
		}
		byN[n] = append(byN[n], item{h, w})
	}
	violations := 0
	for n, items := range byN {
		sort.Slice(items, func(i, j int) bool { return items[i].h < items[j].h })
		var buf bytes.Buffer
		for _, it := range items {
			buf.WriteString(it.h)
			buf.WriteByte('\n')
		}
		ms := `{"A"}`
		if n == 2 {
			ms = `{"A", "B"}`
		}
		cfg := fmt.Sprintf("SPECIFICATION Spec\nCONSTANTS\n  HistFile = \"hist.ndjson\"\n  Methods = %s\nINVARIANTS Accepted Loaded\n", ms)
		res, err := core.RunTLC(sc, &core.TLCOpts{Module: "MockLin", CfgText: cfg, Workers: 8, Timeout: 20 * time.Minute,
			Files: map[string][]byte{"hist.ndjson": buf.Bytes()}})
		if err != nil {
			return 0, err
		}
		if res.Violated {
			return 0, core.Infra("MockLin run failed: %s\n%s", res.ViolatedBy, core.Tail(res.Output, 30))
		}
		ln := core.PrintedLines(res.Output, "LIN-N ")
		if len(ln) == 0 || ln[0] != fmt.Sprint(len(items)) {
			return 0, core.Infra("MockLin loaded %v histories, expected %d", ln, len(items))
		}
		ok := map[int]bool{}
		for _, l := range core.PrintedLines(res.Output, "LIN-OK ") {
			var i int
			fmt.Sscan(l, &i)
			ok[i] = true
		}
		ev.AddTLC(fmt.Sprintf("MockLin methods=%d histories=%d", n, len(items)), res)
		ev.Add("traces_validated_against_impl", int64(len(items)))
		for i, it := range items {
			if !ok[i+1] {
				rep.Violation(prop, map[string]any{"kind": "history of a real mock is not linearizable (lost, duplicated, torn or reordered record)",
					"history": json.RawMessage(it.h), "seen_on": it.where, "how": "spec/MockLin.tla found no linearization"})
				violations++
			}
		}
	}
	return violations, nil
}

func pickMappings(mod *Module, mk MockInfo, mps []map[string]string, tier string, rot int) []map[string]string {
	if tier == "thorough" {
		return mps
	}
	byClass := map[string][]map[string]string{}
	var order []string
	for _, mp := range mps {
		c := mod.Class[mk.Iface.Name+"."+mp["A"]]
		if _, ok := byClass[c]; !ok {
			order = append(order, c)
		}
		byClass[c] = append(byClass[c], mp)
	}
	var out []map[string]string
	for _, c := range order {
		l := byClass[c]
		out = append(out, l[((rot%len(l))+len(l))%len(l)])
	}
	return out
}

// inductive: spec/MockLock.tla - the lock discipline of one method for a fixed
// set of goroutines and executions of ANY length, by an inductive invariant
// discharged with Apalache (Init => IndInv; IndInv /\ Next => IndInv';
// IndInv => RaceFree). Complements the bounded scenarios; a failure to run the
// tool is recorded, it is not a verdict.
func inductive(sc *core.Scratch, ev *core.Evidence) {
	dir := sc.Path("apalache")
	os.MkdirAll(dir, 0o755)
	src, err := os.ReadFile(filepath.Join(core.Root(), "spec", "MockLock.tla"))
	if err != nil {
		ev.Set("inductive_invariant", "spec/MockLock.tla not readable: "+err.Error())
		return
	}
	os.WriteFile(filepath.Join(dir, "MockLock.tla"), src, 0o644)
	steps := [][]string{
		{"--init=Init", "--inv=IndInv", "--length=0"},
		{"--init=IndInv", "--inv=IndInv", "--length=1"},
		{"--init=IndInv", "--inv=RaceFree", "--length=0"},
		{"--init=IndInv", "--inv=NoLostUpdate", "--length=0"},
	}
	var results []string
	ok := 0
	for _, st := range steps {
		args := append([]string{"check", "--cinit=ConstInit"}, st...)
		args = append(args, "MockLock.tla")
		out, err := core.Run(dir, 10*time.Minute, nil, "apalache-mc", args...)
		verdict := "tool failed"
		if strings.Contains(out, "EXITCODE: OK") && err == nil {
			verdict = "OK"
			ok++
		} else if strings.Contains(out, "EXITCODE: ERROR (12)") {
			verdict = "COUNTEREXAMPLE"
		}
		results = append(results, strings.Join(st, " ")+": "+verdict)
	}
	ev.Set("inductive_invariant", map[string]any{"module": "spec/MockLock.tla", "goroutines": 4, "obligations": len(steps), "discharged": ok, "steps": results,
		"checker": "apalache-mc check --cinit=ConstInit --init=... --inv=... --length=0|1"})
}

// randomScenarios: seeded random concurrent programs (2-3 goroutines, at most
// 5 operations in total, callbacks that re-enter the mock). The models need
// no preparation for them: MockImpl expands any program, MockLin judges any
// history. Callbacks that wait for a flag are left to the hand-written
// scenarios (a random program could wait for a flag nobody raises).
func randomScenarios(tier string) []Scenario {
	rng := rand.New(rand.NewSource(core.Seed()*7907 + 3))
	n := 6
	if tier == "thorough" {
		n = 40
	}
	var out []Scenario
	for i := 0; i < n; i++ {
		methods := 1 + rng.Intn(2)
		ms := []string{"A", "B"}[:methods]
		resets := rng.Intn(2) == 0
		nilM := ""
		if rng.Intn(4) == 0 {
			nilM = ms[rng.Intn(methods)]
		}
		ng := 2 + rng.Intn(2)
		total := 0
		var progs [][]POp
		for g := 0; g < ng; g++ {
			var p []POp
			k := 1 + rng.Intn(2)
			for j := 0; j < k && total < 5; j++ {
				total++
				m := ms[rng.Intn(methods)]
				switch r := rng.Intn(10); {
				case r < 5:
					cb := []string{"ret"}
					if m == nilM {
						cb = []string{"nil"}
					} else {
						switch rng.Intn(6) {
						case 0:
							cb = []string{"calls", ms[rng.Intn(methods)]}
						case 1:
							if t := ms[rng.Intn(methods)]; t != nilM {
								cb = []string{"call", t}
							}
						case 2:
							if resets {
								cb = []string{"reset", ms[rng.Intn(methods)]}
							}
						case 3:
							if resets {
								cb = []string{"resetall"}
							}
						case 4:
							cb = []string{"panic"}
						}
					}
					p = append(p, call(m, cb...))
				case r < 8:
					p = append(p, calls(m))
				case r == 8 && resets:
					p = append(p, reset(m))
				case r == 9 && resets:
					p = append(p, resetall())
				default:
					p = append(p, calls(m))
				}
			}
			if len(p) > 0 {
				progs = append(progs, p)
			}
		}
		if len(progs) < 2 {
			continue
		}
		usesReset := false
		for _, p := range progs {
			for _, o := range p {
				if o.Op == "reset" || o.Op == "resetall" || (len(o.Cb) > 0 && (o.Cb[0] == "reset" || o.Cb[0] == "resetall")) {
					usesReset = true
				}
			}
		}
		out = append(out, Scenario{Name: fmt.Sprintf("random#%d(seed %d)", i, core.Seed()), Methods: methods, Resets: usesReset, Progs: progs})
	}
	return out
}
