package rt

import (
	"encoding/json"
	"fmt"
	"sort"
	"strconv"
	"strings"
	"sync"
	"time"

	"verif/internal/core"
)

func tlaStr(s string) string { return strconv.Quote(s) }

func tlaProgs(progs [][]POp) string {
	var gs []string
	for _, p := range progs {
		var ops []string
		for _, o := range p {
			cb := o.Cb
			if len(cb) == 0 {
				cb = []string{"-"}
			}
			q := make([]string, len(cb))
			for i := range cb {
				q[i] = tlaStr(cb[i])
			}
			ops = append(ops, fmt.Sprintf("[op |-> %s, m |-> %s, cb |-> <<%s>>, flag |-> %s]", tlaStr(o.Op), tlaStr(o.M), strings.Join(q, ", "), tlaStr(o.Flag)))
		}
		gs = append(gs, "<<"+strings.Join(ops, ", ")+">>")
	}
	return "<<" + strings.Join(gs, ",\n    ") + ">>"
}

type implState struct {
	Calls map[string][]int `json:"calls"`
	W     map[string]int   `json:"w"`
	A     map[string]int   `json:"a"`
	R     map[string][]int `json:"r"`
	Pos   []int            `json:"pos"`
	Flags []string         `json:"flags"`
}

// canonState renders a MockImpl state in the text form mockdrv.projection uses.
func canonState(st *implState) string {
	var b strings.Builder
	abs := []string{}
	for a := range st.Calls {
		abs = append(abs, a)
	}
	sort.Strings(abs)
	for _, a := range abs {
		fmt.Fprintf(&b, "%s=[", a)
		for i, id := range st.Calls[a] {
			if i > 0 {
				b.WriteString(",")
			}
			fmt.Fprintf(&b, "%d", id)
		}
		fmt.Fprintf(&b, "] w%d a%d r%v; ", st.W[a], st.A[a], st.R[a])
	}
	b.WriteString("pos=")
	for _, p := range st.Pos {
		fmt.Fprintf(&b, "%d,", p)
	}
	fl := append([]string(nil), st.Flags...)
	sort.Strings(fl)
	b.WriteString(" flags=" + strings.Join(fl, ","))
	return b.String()
}

type implRun struct {
	Scenario Scenario
	Stub     bool
	Res      *core.TLCResult
	States   map[string]bool
	Edges    map[string]bool
}

type implEdge struct {
	G    int       `json:"g"`
	From implState `json:"from"`
	To   implState `json:"to"`
}

// modelCheckImpl runs TLC on MockImpl for one scenario.
func modelCheckImpl(sc *core.Scratch, scn Scenario, stub bool, emit bool) (*implRun, error) {
	ms, order := `{"A"}`, `<<"A">>`
	if scn.Methods == 2 {
		ms, order = `{"A", "B"}`, `<<"A", "B">>`
	}
	mc := fmt.Sprintf("---- MODULE MockImplMC ----\nEXTENDS MockImpl\nProgsDef ==\n    %s\nOrderDef == %s\n====\n", tlaProgs(scn.Progs), order)
	cfg := fmt.Sprintf(`SPECIFICATION FairSpec
CONSTANTS
  Methods = %s
  MethodOrder <- OrderDef
  Stub = %s
  Progs <- ProgsDef
  EmitStates = %s
INVARIANTS LockOK NoLostUpdate RaceFree NoLockInCallback NoDuplicate Emit
PROPERTIES AppendOnly Terminates
CHECK_DEADLOCK TRUE
`, ms, tlaBool(stub), tlaBool(emit))
	res, err := core.RunTLC(sc, &core.TLCOpts{Module: "MockImplMC", CfgText: cfg, Workers: 1, Timeout: 10 * time.Minute, Deadlock: true,
		Files: map[string][]byte{"MockImplMC.tla": []byte(mc)}})
	if err != nil {
		return nil, err
	}
	run := &implRun{Scenario: scn, Stub: stub, Res: res, States: map[string]bool{}, Edges: map[string]bool{}}
	for _, l := range core.PrintedLines(res.Output, "EDGE ") {
		s, err := strconv.Unquote(`"` + l + `"`)
		if err != nil {
			return nil, core.Infra("MockImpl edge line: %v", err)
		}
		var e implEdge
		if err := json.Unmarshal([]byte(s), &e); err != nil {
			return nil, core.Infra("MockImpl edge json: %v", err)
		}
		run.Edges[fmt.Sprintf("%s --g%d--> %s", canonState(&e.From), e.G, canonState(&e.To))] = true
	}
	for _, l := range core.PrintedLines(res.Output, "STATE ") {
		s, err := strconv.Unquote(`"` + l + `"`)
		if err != nil {
			return nil, core.Infra("MockImpl state line: %v", err)
		}
		var st implState
		if err := json.Unmarshal([]byte(s), &st); err != nil {
			return nil, core.Infra("MockImpl state json: %v in %s", err, s)
		}
		run.States[canonState(&st)] = true
	}
	return run, nil
}

// implConformance: (1) TLC checks the template's algorithm (MockImpl) for
// every scenario; a violated invariant there is a design-level counterexample,
// which only counts if the real mock reproduces it (it is then found by the
// schedule exploration, whose verdicts are independent). (2) For a sample of
// real mocks the set of abstract states reached under the controlled
// scheduler must equal the set of states TLC reaches: the binding between
// specification and code, in both directions. A difference is SPEC-DRIFT.
func implConformance(sc *core.Scratch, ev *core.Evidence, rep *core.Reporter, mod *Module, bin, dir, tier string) error {
	scenarios := Scenarios(tier)
	type key struct {
		name string
		stub bool
	}
	runs := map[key]*implRun{}
	var mu sync.Mutex
	var wg sync.WaitGroup
	var firstErr error
	sem := make(chan struct{}, 12)
	for _, scn := range scenarios {
		for _, stub := range []bool{false, true} {
			wg.Add(1)
			go func(scn Scenario, stub bool) {
				defer wg.Done()
				sem <- struct{}{}
				defer func() { <-sem }()
				r, err := modelCheckImpl(sc, scn, stub, true)
				mu.Lock()
				defer mu.Unlock()
				if err != nil {
					if firstErr == nil {
						firstErr = err
					}
					return
				}
				runs[key{scn.Name, stub}] = r
			}(scn, stub)
		}
	}
	wg.Wait()
	if firstErr != nil {
		return firstErr
	}
	modelStates := 0
	for k, r := range runs {
		ev.AddTLC(fmt.Sprintf("MockImpl %q stub=%v", k.name, k.stub), r.Res)
		modelStates += len(r.States)
		if r.Res.Violated {
			// the template as modelled breaks a property: candidate only
			rep.DriftNote(fmt.Sprintf("design-level counterexample in MockImpl for scenario %q stub=%v: %s (a candidate; the verdict comes from the real mocks)", k.name, k.stub, r.Res.ViolatedBy))
		}
	}
	ev.Set("mockimpl_states_total", modelStates)
	// conformance sample: mocks whose arguments are distinguishable
	var jobs []any
	type jm struct {
		k    key
		mock string
	}
	var meta []jm
	for _, mk := range mod.Mocks {
		if mk.Variant.SkipEnsure || mk.Variant.Out {
			continue // the sample varies stub/resets; destination and ensure line do not change the method bodies' gate structure
		}
		for _, scn := range scenarios {
			if scn.Resets && !mk.Variant.Resets {
				continue
			}
			mp := distinguishable(mod, mk, scn.Methods)
			if mp == nil {
				continue
			}
			jobs = append(jobs, concJob{Mock: mk.Key, Scenario: scn.Name, Map: mp, Progs: scn.Progs, MaxRuns: 200000, Graph: true})
			meta = append(meta, jm{key{scn.Name, mk.Variant.Stub}, mk.Key})
		}
	}
	nproc := 16
	chunks := make([][]any, nproc)
	idx := make([][]int, nproc)
	for i, j := range jobs {
		chunks[i%nproc] = append(chunks[i%nproc], j)
		idx[i%nproc] = append(idx[i%nproc], i)
	}
	type gres struct {
		Mock        string   `json:"mock"`
		Scenario    string   `json:"scenario"`
		Exhaustive  bool     `json:"exhaustive"`
		GraphStates []string `json:"graphStates"`
		GraphEdges  []string `json:"graphEdges"`
		Infra       string   `json:"infra"`
	}
	all := make([]*gres, len(jobs))
	for i := range chunks {
		if len(chunks[i]) == 0 {
			continue
		}
		wg.Add(1)
		go func(i int) {
			defer wg.Done()
			r, stderr, err := RunDriver[gres](bin, dir, "sched", chunks[i], 30*time.Minute)
			mu.Lock()
			defer mu.Unlock()
			if err != nil || len(r) != len(chunks[i]) {
				if firstErr == nil {
					firstErr = core.Infra("sched driver (graph mode) failed: %v\n%s", err, core.Tail(stderr, 20))
				}
				return
			}
			for k := range r {
				rr := r[k]
				all[idx[i][k]] = &rr
			}
		}(i)
	}
	wg.Wait()
	if firstErr != nil {
		return firstErr
	}
	equal, differ := 0, 0
	for i, r := range all {
		if r == nil || r.Infra != "" {
			return core.Infra("graph job failed: %+v", r)
		}
		model := runs[meta[i].k]
		if model == nil || !r.Exhaustive {
			continue
		}
		real := map[string]bool{}
		for _, s := range r.GraphStates {
			real[s] = true
		}
		var onlyReal, onlyModel []string
		for s := range real {
			if !model.States[s] {
				onlyReal = append(onlyReal, s)
			}
		}
		for s := range model.States {
			if !real[s] {
				onlyModel = append(onlyModel, s)
			}
		}
		// transitions too: (state, goroutine, successor) triples must coincide
		edgeOnlyReal, edgeOnlyModel := 0, 0
		realEdges := map[string]bool{}
		for _, e := range r.GraphEdges {
			realEdges[e] = true
			if !model.Edges[e] {
				edgeOnlyReal++
			}
		}
		for e := range model.Edges {
			if !realEdges[e] {
				edgeOnlyModel++
			}
		}
		ev.Add("graph_edges_compared", int64(len(realEdges)))
		if edgeOnlyReal+edgeOnlyModel > 0 && len(onlyReal) == 0 && len(onlyModel) == 0 {
			rep.DriftNote(fmt.Sprintf("MockImpl vs %s scenario %q: same states but %d transitions only real, %d only in the model", r.Mock, r.Scenario, edgeOnlyReal, edgeOnlyModel))
			differ++
			continue
		}
		ev.Add("traces_validated_against_impl", 1)
		if len(onlyReal) == 0 && len(onlyModel) == 0 {
			equal++
			if equal <= 2 {
				ev.Sample(map[string]any{"conformance": "state sets equal", "mock": r.Mock, "scenario": r.Scenario, "states": len(real), "a_state": r.GraphStates[len(r.GraphStates)/2]})
			}
			continue
		}
		differ++
		sort.Strings(onlyReal)
		sort.Strings(onlyModel)
		ex := ""
		if len(onlyReal) > 0 {
			ex += " real-only e.g. {" + onlyReal[0] + "}"
		}
		if len(onlyModel) > 0 {
			ex += " model-only e.g. {" + onlyModel[0] + "}"
		}
		rep.DriftNote(fmt.Sprintf("MockImpl vs %s scenario %q: %d real states, %d model states, %d only real, %d only model;%s",
			r.Mock, r.Scenario, len(real), len(model.States), len(onlyReal), len(onlyModel), ex))
	}
	ev.Set("impl_conformance", map[string]any{"scenario_mock_pairs_with_equal_state_sets": equal, "pairs_that_differ": differ})
	return nil
}

// distinguishable picks a mapping whose methods take an int or string
// parameter (so recorded ids can be read back from the mock's memory), with A
// before B in method order (ResetCalls walks methods in that order).
func distinguishable(mod *Module, mk MockInfo, n int) map[string]string {
	var ok []string
	for _, x := range mk.Methods {
		if mod.Disting[mk.Iface.Name+"."+x] {
			ok = append(ok, x)
		}
	}
	if len(ok) < n {
		return nil
	}
	if n == 1 {
		return map[string]string{"A": ok[0]}
	}
	return map[string]string{"A": ok[0], "B": ok[1]}
}
