package rt

import (
	"bytes"
	"encoding/json"
	"fmt"
	"os"
	"strconv"
	"strings"
	"sync"
	"time"

	"verif/internal/core"
)

func envLookup(k string) string { return os.Getenv(k) }

// validateSeqTraces feeds the traces recorded by the driver to TLC
// (spec/MockSeqTrace.tla), one run per (methods, stub, resets) configuration.
func validateSeqTraces(sc *core.Scratch, ev *core.Evidence, rep *core.Reporter, prop string, jobs []seqJob, mod *Module) (int, error) {
	type key struct {
		n            int
		stub, resets bool
	}
	info := map[string]MockInfo{}
	for _, m := range mod.Mocks {
		info[m.Key] = m
	}
	groups := map[key]*bytes.Buffer{}
	lineSrc := map[key][]string{}
	for _, j := range jobs {
		b, err := os.ReadFile(j.OutFile)
		if err != nil {
			return 0, core.Infra("recorded trace missing: %v", err)
		}
		mi := info[j.Mock]
		k := key{len(j.Map), mi.Variant.Stub, mi.Variant.Resets}
		if groups[k] == nil {
			groups[k] = &bytes.Buffer{}
		}
		groups[k].Write(b)
		for range bytes.Count(b, []byte("\n")) {
			lineSrc[k] = append(lineSrc[k], j.Mock)
		}
	}
	var mu sync.Mutex
	var wg sync.WaitGroup
	var firstErr error
	violations := 0
	for k, buf := range groups {
		wg.Add(1)
		go func(k key, data []byte) {
			defer wg.Done()
			ms := `{"A"}`
			if k.n == 2 {
				ms = `{"A", "B"}`
			}
			cfg := fmt.Sprintf(`SPECIFICATION Spec
CONSTANTS
  Methods = %s
  Stub = %s
  WithResets = %s
  TraceFile = "trace.ndjson"
INVARIANTS AbsOK Done
`, ms, tlaBool(k.stub), tlaBool(k.resets))
			res, err := core.RunTLC(sc, &core.TLCOpts{Module: "MockSeqTrace", CfgText: cfg, Workers: 1, Timeout: 15 * time.Minute,
				Files: map[string][]byte{"trace.ndjson": data}})
			mu.Lock()
			defer mu.Unlock()
			if err != nil {
				if firstErr == nil {
					firstErr = err
				}
				return
			}
			lines := bytes.Count(data, []byte("\n"))
			tl := core.PrintedLines(res.Output, "TRACE-LINES ")
			if res.Violated || len(tl) != 1 || tl[0] != strconv.Itoa(lines) {
				if firstErr == nil {
					firstErr = core.Infra("MockSeqTrace did not consume its trace (%d lines, reported %v, violated=%v %s):\n%s",
						lines, tl, res.Violated, res.ViolatedBy, core.Tail(res.Output, 30))
				}
				return
			}
			ev.AddTLC(fmt.Sprintf("MockSeqTrace methods=%d stub=%v resets=%v lines=%d", k.n, k.stub, k.resets, lines), res)
			ev.Add("traces_validated_against_impl", int64(bytes.Count(data, []byte(`"first":true`))))
			ev.Add("trace_events_validated", int64(lines))
			seen := map[string]bool{}
			for _, f := range core.PrintedLines(res.Output, "TRACE-FAIL ") {
				s, err := strconv.Unquote(`"` + f + `"`)
				if err != nil {
					s = f
				}
				var tup []any
				json.Unmarshal([]byte(s), &tup)
				if len(tup) != 3 {
					continue
				}
				ln := int(tup[0].(float64))
				field, props := fmt.Sprint(tup[1]), fmt.Sprint(tup[2])
				if props == "infra" {
					if firstErr == nil {
						firstErr = core.Infra("trace line %d: configuration mismatch between driver and spec run", ln)
					}
					continue
				}
				if !strings.Contains(","+props+",", ","+prop+",") {
					ev.Note("trace_failures_attributed_to_other_properties", props+":"+field)
					continue
				}
				mock := ""
				if ln-1 < len(lineSrc[k]) {
					mock = lineSrc[k][ln-1]
				}
				if seen[mock+field] {
					continue
				}
				seen[mock+field] = true
				var evline json.RawMessage
				if parts := bytes.Split(data, []byte("\n")); ln-1 < len(parts) {
					evline = parts[ln-1]
				}
				rep.Violation(prop, map[string]any{"kind": "seq-trace", "mock": mock, "field": field, "line": ln, "event": evline,
					"how": "recorded trace rejected by spec/MockSeqTrace.tla"})
				violations++
			}
		}(k, buf.Bytes())
	}
	wg.Wait()
	return violations, firstErr
}
