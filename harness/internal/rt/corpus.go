// Package rt: the run-time family (C03-C08). It generates mocks with the real
// moq for a corpus of interface shapes under every flag combination, links
// them with the reflection driver (mockdrv) and drives them with histories
// and schedules that come out of the TLA+ specifications.
package rt

// CorpusSrc is the source package every run-time variant is generated from.
// It deliberately stays away from the shapes listed in known-findings.json
// (those are C01/C09/C12 business); what matters here is coverage of what the
// *template* can depend on: parameter and result arity, variadic tails,
// unnamed/blank parameters, imported types, generics, one-method and empty
// interfaces, embedded interfaces, initialism-like method names.
const CorpusSrc = `package rtc

import (
	"bytes"
	"context"
	"fmt"
	"io"
)

type T struct {
	N int
	S string
}

type Shapes interface {
	P0R0()
	P1R0(a int)
	P3R0(a int, b string, c bool)
	P0R1() int
	P1R1(s string) error
	P3R2(a int, b string, c []byte) (int, error)
	P0R2() (string, bool)
	P2R3(x float64, y uint8) (string, []int, error)
	Var(prefix string, rest ...int) int
	VarOnly(xs ...string)
	VarIface(format string, args ...interface{}) (int, error)
	Unnamed(int, string) bool
	Blank(_ int, _ string)
	Imported(ctx context.Context, r io.Reader) (*bytes.Buffer, error)
	NamedRes(a int) (n int, err error)
	Ptr(p *T) *T
	Map(m map[string]int) map[string]T
	Chan(c chan int) <-chan int
	Fn(f func(int) int) func() error
	Struct(t T) T
	Arr(a [2]int) [2]string
	Iface(x interface{}, s fmt.Stringer) interface{}
	Big(a [32]byte, b [16]int) [32]byte
	BigOnly(sum [20]byte)
	Nested(parts ...[]byte) [][]string
	P5R1(a int, b string, c bool, d float64, e []byte) error
	Huge(block [512]byte, lba int)
	CtxErr(ctx context.Context, key string) (map[string]int, error)
}

type Single interface {
	Only(x int) int
}

type Empty interface{}

type Names interface {
	Id(id int) int
	Url() string
	Json(v []byte) error
	Close() error
	Len() int
	Flush()
}

// names that differ only in the spelling the template's Exported helper would normalise
type Twins interface {
	Id(x int) int
	ID(x int) int
	Url() string
	URL() string
	Http(req string)
	HTTP(req string)
}

type Store[K any, V any] interface {
	Get(k K) (V, bool)
	Put(k K, v V)
	Len() int
	Keys() []K
	Clear()
}

type Printer[P fmt.Stringer] interface {
	Print(p P) string
	All(ps ...P)
}

type Num[N ~int | ~int64] interface {
	Add(a, b N) N
	Zero() N
}

type Embeds interface {
	Single
	io.Closer
	Extra(n int)
}

// methods whose result is the mocked interface itself (builder chains); nil is a
// legitimate result (end of chain)
type Chain interface {
	Next() Chain
	Wrap(c Chain, depth int) (Chain, error)
	Named(name string) Chain
}

// same method name and parameter types as Shapes.P3R0 / Names.Id, other parameter
// names and order: nothing of another interface's method may leak into this mock
type Shadow interface {
	P3R0(c int, a string, b bool)
	Id(x int) int
	Copy(ctx context.Context, dst, src string) error
}

type Shadow2 interface {
	Copy(ctx context.Context, src, dst string) error
	Id(id int) int
}

// method names close to the names the template derives, without colliding
type Resetty interface {
	Calls() int
	FuncGet(k string)
	Get(k string) int
	GetCall()
	Password(p string)
	ResetGetter()
	ResetPasswordByEmail(email string) error
}

type Str struct{ V int }

func (s *Str) String() string { return fmt.Sprint(s.V) }
`

// CorpusIface describes one interface of the corpus as moq is asked to mock it.
type CorpusIface struct {
	Name     string
	MockName string // "" = default <Name>Mock
	TypeArgs string // instantiation used by the driver, "" for non-generic; written for the in-place package
	// TypeArgsOut is the same instantiation as seen from another package (qualified with rtc.)
	TypeArgsOut string
}

var Corpus = []CorpusIface{
	{Name: "Shapes"},
	{Name: "Single", MockName: "SoloMock"},
	{Name: "Empty"},
	{Name: "Names"},
	{Name: "Twins"},
	{Name: "Store", TypeArgs: "[string, T]", TypeArgsOut: "[string, rtc.T]"},
	{Name: "Printer", TypeArgs: "[*Str]", TypeArgsOut: "[*rtc.Str]"},
	{Name: "Num", MockName: "NumberMock", TypeArgs: "[int]", TypeArgsOut: "[int]"},
	{Name: "Embeds"},
	{Name: "Chain"},
	{Name: "Resetty"},
	{Name: "Shadow"},
	{Name: "Shadow2"},
	{Name: "Single", MockName: "SingleTwin"}, // one interface under two mock names in one run
}

func (c CorpusIface) Mock() string {
	if c.MockName != "" {
		return c.MockName
	}
	return c.Name + "Mock"
}

func (c CorpusIface) Arg() string {
	if c.MockName != "" {
		return c.Name + ":" + c.MockName
	}
	return c.Name
}
