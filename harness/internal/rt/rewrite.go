package rt

import (
	"bytes"
	"fmt"
	"go/ast"
	"go/format"
	"go/parser"
	"go/token"
	"strconv"
)

// RewriteForSched turns a generated file into its "sched build" form:
//   - the import of "sync" is redirected to the driver package, which offers
//     RWMutex/Mutex with the same methods but under scheduler control;
//   - before every statement that touches <receiver>.calls[.<M>] a Yield is
//     inserted (kind r or w, address of the location);
//   - `x = f(x)` on such a location (the append) is split into a read half and
//     a write half with a Yield between.
//
// All three only ADD preemption points or replace real blocking by modelled
// blocking with the same enabledness, so every behaviour of the rewritten
// file is a behaviour of the original.
func RewriteForSched(src []byte, drvImport string) ([]byte, int, error) {
	fset := token.NewFileSet()
	f, err := parser.ParseFile(fset, "mock.go", src, parser.ParseComments)
	if err != nil {
		return nil, 0, err
	}
	qual := ""
	for _, im := range f.Imports {
		p, _ := strconv.Unquote(im.Path.Value)
		if p == "sync" {
			qual = "sync"
			if im.Name != nil {
				qual = im.Name.Name
			} else {
				im.Name = ast.NewIdent("sync")
			}
			im.Path.Value = strconv.Quote(drvImport)
		}
	}
	if qual == "" {
		return src, 0, nil // nothing synchronised in this file (only empty interfaces)
	}
	n := 0
	for _, d := range f.Decls {
		fd, ok := d.(*ast.FuncDecl)
		if !ok || fd.Recv == nil || fd.Body == nil || len(fd.Recv.List) != 1 || len(fd.Recv.List[0].Names) != 1 {
			continue
		}
		rw := &rewriter{recv: fd.Recv.List[0].Names[0].Name, qual: qual}
		rw.block(fd.Body)
		n += rw.n
	}
	var buf bytes.Buffer
	if err := format.Node(&buf, fset, f); err != nil {
		return nil, 0, err
	}
	return buf.Bytes(), n, nil
}

type rewriter struct {
	recv, qual string
	n, tmp     int
}

// paths returns the distinct <recv>.calls[.<M>] locations mentioned in e.
func (r *rewriter) paths(e ast.Node) []ast.Expr {
	var out []ast.Expr
	seen := map[string]bool{}
	if e == nil {
		return nil
	}
	var visit func(n ast.Node) bool
	visit = func(n ast.Node) bool {
		if _, isFn := n.(*ast.FuncLit); isFn {
			return false
		}
		se, ok := n.(*ast.SelectorExpr)
		if !ok {
			return true
		}
		// <recv>.calls.<M>
		if in, ok := se.X.(*ast.SelectorExpr); ok {
			if id, ok := in.X.(*ast.Ident); ok && id.Name == r.recv && in.Sel.Name == "calls" {
				k := "calls." + se.Sel.Name
				if !seen[k] {
					seen[k] = true
					out = append(out, se)
				}
				return false
			}
		}
		if id, ok := se.X.(*ast.Ident); ok && id.Name == r.recv && se.Sel.Name == "calls" {
			if !seen["calls"] {
				seen["calls"] = true
				out = append(out, se)
			}
			return false
		}
		return true
	}
	ast.Inspect(e, visit)
	return out
}

func (r *rewriter) yield(kind string, loc ast.Expr) ast.Stmt {
	r.n++
	return &ast.ExprStmt{X: &ast.CallExpr{
		Fun:  &ast.SelectorExpr{X: ast.NewIdent(r.qual), Sel: ast.NewIdent("Yield")},
		Args: []ast.Expr{&ast.BasicLit{Kind: token.STRING, Value: strconv.Quote(kind)}, &ast.UnaryExpr{Op: token.AND, X: loc}},
	}}
}

func (r *rewriter) yieldsFor(kind string, nodes ...ast.Node) []ast.Stmt {
	var out []ast.Stmt
	for _, n := range nodes {
		if n == nil {
			continue
		}
		for _, p := range r.paths(n) {
			out = append(out, r.yield(kind, p))
		}
	}
	return out
}

func (r *rewriter) block(b *ast.BlockStmt) {
	if b == nil {
		return
	}
	b.List = r.stmts(b.List)
}

func (r *rewriter) stmts(list []ast.Stmt) []ast.Stmt {
	var out []ast.Stmt
	for _, st := range list {
		out = append(out, r.stmt(st)...)
	}
	return out
}

func isNilNode(n ast.Node) bool {
	switch v := n.(type) {
	case nil:
		return true
	case ast.Stmt:
		return v == nil
	case ast.Expr:
		return v == nil
	}
	return false
}

func (r *rewriter) stmt(st ast.Stmt) []ast.Stmt {
	switch s := st.(type) {
	case *ast.AssignStmt:
		var pre []ast.Stmt
		var lhsPaths, rhsPaths []ast.Expr
		for _, l := range s.Lhs {
			lhsPaths = append(lhsPaths, r.paths(l)...)
		}
		for _, x := range s.Rhs {
			rhsPaths = append(rhsPaths, r.paths(x)...)
		}
		if len(lhsPaths) == 0 && len(rhsPaths) == 0 {
			return []ast.Stmt{st}
		}
		if len(lhsPaths) > 0 && len(rhsPaths) > 0 && len(s.Lhs) == 1 && len(s.Rhs) == 1 && s.Tok == token.ASSIGN {
			// read half, yield, write half
			r.tmp++
			tmp := ast.NewIdent(fmt.Sprintf("verifTmp%d", r.tmp))
			for _, p := range rhsPaths {
				pre = append(pre, r.yield("r", p))
			}
			pre = append(pre, &ast.AssignStmt{Lhs: []ast.Expr{tmp}, Tok: token.DEFINE, Rhs: s.Rhs})
			for _, p := range lhsPaths {
				pre = append(pre, r.yield("w", p))
			}
			pre = append(pre, &ast.AssignStmt{Lhs: s.Lhs, Tok: token.ASSIGN, Rhs: []ast.Expr{tmp}})
			return pre
		}
		for _, p := range rhsPaths {
			pre = append(pre, r.yield("r", p))
		}
		for _, p := range lhsPaths {
			pre = append(pre, r.yield("w", p))
		}
		return append(pre, st)
	case *ast.IfStmt:
		pre := r.yieldsFor("r", nodeOrNil(s.Init), s.Cond)
		r.block(s.Body)
		if s.Else != nil {
			switch e := s.Else.(type) {
			case *ast.BlockStmt:
				r.block(e)
			case *ast.IfStmt:
				wrapped := r.stmt(e)
				if len(wrapped) == 1 {
					s.Else = wrapped[0]
				} else {
					s.Else = &ast.BlockStmt{List: wrapped}
				}
			}
		}
		return append(pre, st)
	case *ast.ForStmt:
		pre := r.yieldsFor("r", nodeOrNil(s.Init), exprOrNil(s.Cond), nodeOrNil(s.Post))
		r.block(s.Body)
		if len(pre) > 0 && s.Body != nil {
			s.Body.List = append(r.yieldsFor("r", exprOrNil(s.Cond), nodeOrNil(s.Post)), s.Body.List...)
		}
		return append(pre, st)
	case *ast.RangeStmt:
		pre := r.yieldsFor("r", s.X)
		r.block(s.Body)
		return append(pre, st)
	case *ast.BlockStmt:
		r.block(s)
		return []ast.Stmt{st}
	case *ast.SwitchStmt:
		pre := r.yieldsFor("r", nodeOrNil(s.Init), exprOrNil(s.Tag))
		r.block(s.Body)
		return append(pre, st)
	case *ast.TypeSwitchStmt:
		r.block(s.Body)
		return []ast.Stmt{st}
	case *ast.SelectStmt:
		r.block(s.Body)
		return []ast.Stmt{st}
	case *ast.CaseClause:
		s.Body = r.stmts(s.Body)
		return []ast.Stmt{st}
	case *ast.CommClause:
		s.Body = r.stmts(s.Body)
		return []ast.Stmt{st}
	case *ast.LabeledStmt:
		inner := r.stmt(s.Stmt)
		if len(inner) == 1 {
			s.Stmt = inner[0]
			return []ast.Stmt{st}
		}
		s.Stmt = &ast.BlockStmt{List: inner}
		return []ast.Stmt{st}
	case *ast.IncDecStmt:
		if ps := r.paths(s.X); len(ps) > 0 {
			var pre []ast.Stmt
			for _, p := range ps {
				pre = append(pre, r.yield("w", p))
			}
			return append(pre, st)
		}
		return []ast.Stmt{st}
	case *ast.DeclStmt, *ast.ExprStmt, *ast.ReturnStmt, *ast.DeferStmt, *ast.GoStmt, *ast.SendStmt:
		pre := r.yieldsFor("r", st)
		return append(pre, st)
	}
	return []ast.Stmt{st}
}

func nodeOrNil(s ast.Stmt) ast.Node {
	if s == nil {
		return nil
	}
	return s
}

func exprOrNil(e ast.Expr) ast.Node {
	if e == nil {
		return nil
	}
	return e
}
