package rt

import (
	"fmt"
	"os"
	"path/filepath"
	"strings"
	"time"

	"verif/internal/core"
)

type raceJob struct {
	Mock     string            `json:"mock"`
	Scenario string            `json:"scenario"`
	Map      map[string]string `json:"map"`
	Progs    [][]POp           `json:"progs"`
	Iters    int               `json:"iters"`
}

type raceResult struct {
	Mock     string `json:"mock"`
	Scenario string `json:"scenario"`
	Iters    int    `json:"iters"`
	Lost     int    `json:"lost"`
	Hung     bool   `json:"hung"`
	Infra    string `json:"infra"`
}

type raceOutcome struct {
	Summary map[string]any
	Reports []string
	Hung    []string // jobs whose free-running goroutines never finished
}

// runRace builds the untouched generated code with -race and lets real
// goroutines run the scenarios. A race report with a generated file in one of
// its stacks is a real-code witness for C05.
func runRace(mod *Module, tier string) (*raceOutcome, error) {
	bin, out, err := mod.Build(true)
	if err != nil {
		return nil, core.Infra("race build failed:\n%s", core.Tail(out, 30))
	}
	iters := 60
	if tier == "thorough" {
		iters = 400
	}
	var jobs []any
	for vi, mk := range mod.Mocks {
		for si, scn := range Scenarios("quick") {
			if scn.Resets && !mk.Variant.Resets {
				continue
			}
			waits := false
			for _, p := range scn.Progs {
				for _, op := range p {
					if len(op.Cb) > 0 && op.Cb[0] == "wait" {
						waits = true
					}
				}
			}
			if waits {
				continue
			}
			mps := concMappings(mk.Methods, scn.Methods)
			if len(mps) == 0 {
				continue
			}
			mp := mps[(si+vi+int(core.Seed()))%len(mps)]
			jobs = append(jobs, raceJob{Mock: mk.Key, Scenario: scn.Name, Map: mp, Progs: scn.Progs, Iters: iters})
		}
	}
	logBase := filepath.Join(mod.Dir, "racelog")
	res, stderr, err := RunDriver[raceResult](bin, mod.Dir, "race", jobs, 30*time.Minute,
		"GORACE=halt_on_error=0 exitcode=0 log_path="+logBase)
	if err != nil || len(res) != len(jobs) {
		return nil, core.Infra("race driver failed: %v (%d of %d)\n%s", err, len(res), len(jobs), core.Tail(stderr, 30))
	}
	o := &raceOutcome{Summary: map[string]any{"jobs": len(jobs), "iterations_each": iters}}
	lost := 0
	for _, r := range res {
		if r.Infra != "" {
			return nil, core.Infra("race job: %s", r.Infra)
		}
		if r.Hung {
			o.Hung = append(o.Hung, fmt.Sprintf("%s %s", r.Mock, r.Scenario))
			continue
		}
		if r.Lost > 0 {
			lost += r.Lost
			o.Reports = append(o.Reports, fmt.Sprintf("%s %s: quiescent record count differs from the number of calls in %d of %d iterations", r.Mock, r.Scenario, r.Lost, r.Iters))
		}
	}
	o.Summary["count_mismatches"] = lost
	logs, _ := filepath.Glob(logBase + ".*")
	nrep := 0
	seen := map[string]bool{}
	for _, lf := range logs {
		b, _ := os.ReadFile(lf)
		for _, blk := range strings.Split(string(b), "==================") {
			if !strings.Contains(blk, "DATA RACE") {
				continue
			}
			nrep++
			if !strings.Contains(blk, "mocks_gen.go") {
				continue
			}
			// dedupe by the generated-code frames involved
			var frames []string
			for _, ln := range strings.Split(blk, "\n") {
				if strings.Contains(ln, "mocks_gen.go") {
					f := strings.TrimSpace(ln)
					if i := strings.LastIndex(f, "/"); i >= 0 {
						f = f[i+1:]
					}
					frames = append(frames, strings.Fields(f)[0])
				}
			}
			k := strings.Join(frames, "|")
			if seen[k] || len(o.Reports) > 8 {
				continue
			}
			seen[k] = true
			o.Reports = append(o.Reports, strings.TrimSpace(blk))
		}
	}
	o.Summary["race_reports_total"] = nrep
	return o, nil
}
