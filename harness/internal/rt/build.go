package rt

import (
	"bytes"
	"encoding/json"
	"fmt"
	"go/types"
	"os"
	"os/exec"
	"path/filepath"
	"sort"
	"strings"
	"sync"
	"time"

	"golang.org/x/tools/go/packages"

	"verif/internal/core"
)

const ModName = "vscratch"

type Variant struct {
	Stub, Resets, SkipEnsure bool
	Out                      bool // generated into another package (-pkg mocks)
}

func (v Variant) Name() string {
	b := func(x bool) string {
		if x {
			return "1"
		}
		return "0"
	}
	d := "in"
	if v.Out {
		d = "out"
	}
	return fmt.Sprintf("s%sr%se%s_%s", b(v.Stub), b(v.Resets), b(v.SkipEnsure), d)
}

func AllVariants() []Variant {
	var vs []Variant
	for i := 0; i < 16; i++ {
		vs = append(vs, Variant{Stub: i&1 != 0, Resets: i&2 != 0, SkipEnsure: i&4 != 0, Out: i&8 != 0})
	}
	return vs
}

// MockInfo is one registered mock of the scratch module.
type MockInfo struct {
	Key     string // "<variant>/<MockType>"
	Variant Variant
	Iface   CorpusIface
	Methods []string
	File    string // generated file
}

type Module struct {
	Dir     string
	MoqBin  string
	Mocks   []MockInfo
	Methods map[string][]string // interface -> exported method names (complete method set)
	Class   map[string]string   // "<iface>.<method>" -> shape class of the signature
	Disting map[string]bool     // "<iface>.<method>" -> calls are distinguishable by an int or string argument
	Fields  map[string][]string // "<iface>.<method>" -> expected call-record field names ("" = parameter without a written name)
	GenLog  []string
}

func (m *Module) pkgDir(v Variant) string  { return filepath.Join(m.Dir, v.Name()) }
func (m *Module) mockDir(v Variant) string { return filepath.Join(m.Dir, v.Name(), mockSub(v)) }
func mockSub(v Variant) string {
	if v.Out {
		return "mocks"
	}
	return ""
}

// Generate lays out the scratch module and runs the real moq CLI once per variant.
func Generate(sc *core.Scratch, moqBin string, variants []Variant) (*Module, error) {
	m := &Module{Dir: sc.Path("rtmod"), MoqBin: moqBin}
	if err := core.WriteFile(filepath.Join(m.Dir, "go.mod"), []byte("module "+ModName+"\n\ngo 1.24\n")); err != nil {
		return nil, err
	}
	for _, d := range []string{"mockdrv"} {
		if err := core.CopyDir(filepath.Join(core.Root(), "harness", d), filepath.Join(m.Dir, d)); err != nil {
			return nil, core.Infra("copy %s: %v", d, err)
		}
	}
	for _, v := range variants {
		if err := core.WriteFile(filepath.Join(m.pkgDir(v), "rtc.go"), []byte(CorpusSrc)); err != nil {
			return nil, err
		}
	}
	// method sets, from go/types on the first variant's package
	if err := m.loadMethods(variants[0]); err != nil {
		return nil, err
	}
	var wg sync.WaitGroup
	var mu sync.Mutex
	var firstErr error
	sem := make(chan struct{}, 8)
	for _, v := range variants {
		wg.Add(1)
		go func(v Variant) {
			defer wg.Done()
			sem <- struct{}{}
			defer func() { <-sem }()
			args := []string{}
			if v.Stub {
				args = append(args, "-stub")
			}
			if v.Resets {
				args = append(args, "-with-resets")
			}
			if v.SkipEnsure {
				args = append(args, "-skip-ensure")
			}
			out := filepath.Join(m.mockDir(v), "mocks_gen.go")
			if v.Out {
				args = append(args, "-pkg", "mocks")
			}
			args = append(args, "-out", out, m.pkgDir(v))
			for _, c := range Corpus {
				args = append(args, c.Arg())
			}
			var o string
			var err error
			for attempt := 0; attempt < 3; attempt++ { // the go command may fail transiently on a loaded machine; a defect fails every time
				if o, err = core.Run(m.Dir, 2*time.Minute, core.GoEnv(), moqBin, args...); err == nil {
					break
				}
			}
			mu.Lock()
			defer mu.Unlock()
			m.GenLog = append(m.GenLog, "moq "+strings.Join(args, " "))
			if err != nil && firstErr == nil {
				firstErr = fmt.Errorf("moq %s: %v\n%s", strings.Join(args, " "), err, core.Tail(o, 15))
			}
		}(v)
	}
	wg.Wait()
	if firstErr != nil {
		return m, firstErr
	}
	for _, v := range variants {
		var reg bytes.Buffer
		pkg := "rtc"
		if v.Out {
			pkg = "mocks"
		}
		fmt.Fprintf(&reg, "package %s\n\nimport (\n\t\"%s/mockdrv\"\n", pkg, ModName)
		needSrc := false
		for _, c := range Corpus {
			if v.Out && strings.Contains(c.TypeArgsOut, "rtc.") {
				needSrc = true
			}
		}
		if needSrc {
			fmt.Fprintf(&reg, "\trtc \"%s/%s\"\n", ModName, v.Name())
		}
		fmt.Fprintf(&reg, ")\n\nfunc init() {\n")
		for _, c := range Corpus {
			ta := c.TypeArgs
			if v.Out {
				ta = c.TypeArgsOut
			}
			key := v.Name() + "/" + c.Mock()
			ms := m.Methods[c.Name]
			q := make([]string, len(ms))
			for i := range ms {
				q[i] = fmt.Sprintf("%q", ms[i])
			}
			var fq []string
			for _, x := range ms {
				fl := m.Fields[c.Name+"."+x]
				qq := make([]string, len(fl))
				for i := range fl {
					qq[i] = fmt.Sprintf("%q", fl[i])
				}
				fq = append(fq, fmt.Sprintf("%q: {%s}", x, strings.Join(qq, ", ")))
			}
			fmt.Fprintf(&reg, "\tmockdrv.Register(mockdrv.Entry{Name: %q, New: func() any { return new(%s%s) }, Methods: []string{%s}, MockType: %q, Iface: %q, Stub: %v, Resets: %v, Fields: map[string][]string{%s}})\n",
				key, c.Mock(), ta, strings.Join(q, ", "), c.Mock(), c.Name, v.Stub, v.Resets, strings.Join(fq, ", "))
			m.Mocks = append(m.Mocks, MockInfo{Key: key, Variant: v, Iface: c, Methods: ms, File: filepath.Join(m.mockDir(v), "mocks_gen.go")})
		}
		fmt.Fprintf(&reg, "}\n")
		if err := core.WriteFile(filepath.Join(m.mockDir(v), "reg_gen.go"), reg.Bytes()); err != nil {
			return nil, err
		}
	}
	var mainSrc bytes.Buffer
	fmt.Fprintf(&mainSrc, "package main\n\nimport (\n\t\"%s/mockdrv\"\n", ModName)
	for _, v := range variants {
		p := ModName + "/" + v.Name()
		if v.Out {
			p += "/mocks"
		}
		fmt.Fprintf(&mainSrc, "\t_ %q\n", p)
	}
	fmt.Fprintf(&mainSrc, ")\n\nfunc main() { mockdrv.Main() }\n")
	if err := core.WriteFile(filepath.Join(m.Dir, "drv", "main.go"), mainSrc.Bytes()); err != nil {
		return nil, err
	}
	return m, nil
}

func (m *Module) loadMethods(v Variant) error {
	cfg := &packages.Config{Mode: packages.NeedName | packages.NeedTypes, Dir: m.Dir, Env: core.GoEnv()}
	pkgs, err := packages.Load(cfg, "./"+v.Name())
	if err != nil || len(pkgs) != 1 || len(pkgs[0].Errors) > 0 {
		return core.Infra("loading run-time corpus: %v %v", err, pkgs)
	}
	m.Methods = map[string][]string{}
	m.Class = map[string]string{}
	m.Disting = map[string]bool{}
	for _, c := range Corpus {
		obj := pkgs[0].Types.Scope().Lookup(c.Name)
		if obj == nil {
			return core.Infra("corpus interface %s missing", c.Name)
		}
		it, ok := obj.Type().Underlying().(*types.Interface)
		if !ok {
			return core.Infra("%s is not an interface", c.Name)
		}
		var ms []string
		for i := 0; i < it.NumMethods(); i++ {
			if it.Method(i).Exported() {
				ms = append(ms, it.Method(i).Name())
				sig := it.Method(i).Type().(*types.Signature)
				m.Class[c.Name+"."+it.Method(i).Name()] = shapeClass(sig)
				// the call record's field names, where the interface writes parameter names
				// (the rule of C13: first letter upper-cased, well-known initialisms entirely)
				var fl []string
				for k := 0; k < sig.Params().Len(); k++ {
					n := sig.Params().At(k).Name()
					if n == "" || n == "_" {
						fl = append(fl, "")
					} else {
						fl = append(fl, exportedName(n))
					}
				}
				if m.Fields == nil {
					m.Fields = map[string][]string{}
				}
				m.Fields[c.Name+"."+it.Method(i).Name()] = fl
				for k := 0; k < sig.Params().Len(); k++ {
					if b, ok := sig.Params().At(k).Type().(*types.Basic); ok && b.Info()&(types.IsInteger|types.IsString) != 0 {
						m.Disting[c.Name+"."+it.Method(i).Name()] = true
					}
				}
			}
		}
		sort.Strings(ms)
		m.Methods[c.Name] = ms
	}
	return nil
}

var initialisms = map[string]bool{"ACL": true, "API": true, "ASCII": true, "CPU": true, "CSS": true, "DNS": true, "EOF": true, "GUID": true, "HTML": true, "HTTP": true, "HTTPS": true, "ID": true,
	"IP": true, "JSON": true, "LHS": true, "QPS": true, "RAM": true, "RHS": true, "RPC": true, "SLA": true, "SMTP": true, "SQL": true, "SSH": true, "TCP": true, "TLS": true, "TTL": true, "UDP": true,
	"UI": true, "UID": true, "UUID": true, "URI": true, "URL": true, "UTF8": true, "VM": true, "XML": true, "XMPP": true, "XSRF": true, "XSS": true}

// exportedName: the documented record-field rule (an independent copy, see spec/MoqNames.tla Exported).
func exportedName(s string) string {
	if initialisms[strings.ToUpper(s)] {
		return strings.ToUpper(s)
	}
	return strings.ToUpper(s[:1]) + s[1:]
}

// Build compiles the driver. A compile error in generated code is reported
// with its text: the caller decides whether that is a violation (C01-style)
// or infrastructure.
func (m *Module) Build(race bool) (string, string, error) {
	bin := filepath.Join(m.Dir, "drv.bin")
	args := []string{"build", "-o", bin}
	if race {
		bin = filepath.Join(m.Dir, "drvrace.bin")
		args = []string{"build", "-race", "-o", bin}
	}
	args = append(args, "./drv")
	out, err := core.Run(m.Dir, 10*time.Minute, core.GoEnv(), "go", args...)
	if err != nil && !strings.Contains(out, "mocks_gen.go") {
		// not a compile error in generated code: try once more
		out, err = core.Run(m.Dir, 10*time.Minute, core.GoEnv(), "go", args...)
	}
	return bin, out, err
}

// RunDriver runs the driver binary with a jobs file and decodes NDJSON results.
func RunDriver[T any](bin, dir, mode string, jobs []any, timeout time.Duration, env ...string) ([]T, string, error) {
	var buf bytes.Buffer
	enc := json.NewEncoder(&buf)
	for _, j := range jobs {
		enc.Encode(j)
	}
	jf, err := os.CreateTemp(dir, "jobs-*.ndjson")
	if err != nil {
		return nil, "", err
	}
	jf.Write(buf.Bytes())
	jf.Close()
	defer os.Remove(jf.Name())
	cmd := exec.Command(bin, mode, jf.Name())
	cmd.Dir = dir
	cmd.Env = append(os.Environ(), env...)
	var stdout, stderr bytes.Buffer
	cmd.Stdout, cmd.Stderr = &stdout, &stderr
	done := make(chan error, 1)
	if err := cmd.Start(); err != nil {
		return nil, "", err
	}
	go func() { done <- cmd.Wait() }()
	select {
	case err = <-done:
	case <-time.After(timeout):
		cmd.Process.Kill()
		<-done
		return nil, stderr.String(), core.Infra("driver %s timed out after %s", mode, timeout)
	}
	var res []T
	dec := json.NewDecoder(&stdout)
	for dec.More() {
		var r T
		if e := dec.Decode(&r); e != nil {
			return res, stderr.String(), core.Infra("driver output: %v", e)
		}
		res = append(res, r)
	}
	return res, stderr.String(), err
}

// shapeClass abstracts a signature to the features generated code could
// plausibly depend on: arity buckets, variadic tail, whether the parameters
// hold pointers, named results.
func shapeClass(sig *types.Signature) string {
	b := func(n int) string {
		if n >= 2 {
			return "2+"
		}
		return fmt.Sprint(n)
	}
	ptrFree := true
	for i := 0; i < sig.Params().Len(); i++ {
		if !pointerFree(sig.Params().At(i).Type(), 0) {
			ptrFree = false
		}
	}
	named := sig.Results().Len() > 0 && sig.Results().At(0).Name() != ""
	return fmt.Sprintf("p%s r%s v%v pf%v nr%v", b(sig.Params().Len()), b(sig.Results().Len()), sig.Variadic(), ptrFree, named)
}

func pointerFree(t types.Type, d int) bool {
	if d > 5 {
		return false
	}
	switch u := t.Underlying().(type) {
	case *types.Basic:
		return u.Info()&types.IsString == 0 && u.Kind() != types.UnsafePointer
	case *types.Array:
		return pointerFree(u.Elem(), d+1)
	case *types.Struct:
		for i := 0; i < u.NumFields(); i++ {
			if !pointerFree(u.Field(i).Type(), d+1) {
				return false
			}
		}
		return true
	}
	return false
}
