package rt

import (
	"bytes"
	"fmt"
	"os"
	"path/filepath"
	"strconv"
	"strings"
	"sync"
	"time"

	"verif/internal/core"
)

// seqProps are the properties decided by the sequential pipeline.
var seqProps = map[string]bool{"C03": true, "C04": true, "C07": true, "C08": true}

type seqMismatch struct {
	Hist  int    `json:"hist"`
	Step  int    `json:"step"`
	Prop  string `json:"prop"`
	Field string `json:"field"`
	Want  string `json:"want"`
	Got   string `json:"got"`
	Op    string `json:"op"`
}

type seqResult struct {
	Mock       string            `json:"mock"`
	Map        map[string]string `json:"map"`
	Histories  int               `json:"histories"`
	Skipped    int               `json:"skipped"`
	Steps      int               `json:"steps"`
	NilRec     bool              `json:"nilRec"`
	Mismatches []seqMismatch     `json:"mismatches"`
	NMismatch  int               `json:"nMismatch"`
	Infra      string            `json:"infra"`
	Traces     int               `json:"traces"`
	Events     int               `json:"events"`
}

type seqJob struct {
	Kind        string            `json:"kind"`
	Mock        string            `json:"mock"`
	Map         map[string]string `json:"map"`
	HistFile    string            `json:"histFile"`
	MaxMismatch int               `json:"maxMismatch"`
	Seed        int64             `json:"seed,omitempty"`
	Traces      int               `json:"traces,omitempty"`
	Len         int               `json:"len,omitempty"`
	OutFile     string            `json:"outFile,omitempty"`
	Script      string            `json:"script,omitempty"`
}

// histories runs TLC on MockSeq for one (methods, stub, resets, maxLen)
// configuration and returns the NDJSON of complete histories.
func histories(sc *core.Scratch, ev *core.Evidence, nMethods int, stub, resets bool, maxLen int) ([]byte, int, error) {
	ms := `{"A"}`
	if nMethods == 2 {
		ms = `{"A", "B"}`
	}
	cfg := fmt.Sprintf(`SPECIFICATION Spec
CONSTANTS
  Methods = %s
  Stub = %s
  WithResets = %s
  MaxLen = %d
  EmitJson = TRUE
INVARIANTS TypeOK Emit
PROPERTIES AppendOnly ResetIsolated
`, ms, tlaBool(stub), tlaBool(resets), maxLen)
	res, err := core.RunTLC(sc, &core.TLCOpts{Module: "MockSeq", CfgText: cfg, Workers: 1, Timeout: 20 * time.Minute})
	if err != nil {
		return nil, 0, err
	}
	if res.Violated {
		return nil, 0, core.Infra("MockSeq violates its own sanity properties (%s):\n%s", res.ViolatedBy, core.Tail(res.Output, 40))
	}
	ev.AddTLC(fmt.Sprintf("MockSeq methods=%d stub=%v resets=%v len=%d", nMethods, stub, resets, maxLen), res)
	lines := core.PrintedLines(res.Output, "HIST ")
	var buf bytes.Buffer
	for _, l := range lines {
		// TLC prints the string with Go-compatible escapes
		s, err := strconv.Unquote(`"` + l + `"`)
		if err != nil {
			return nil, 0, core.Infra("cannot unquote TLC output line: %v", err)
		}
		buf.WriteString(s)
		buf.WriteByte('\n')
	}
	if len(lines) == 0 {
		return nil, 0, core.Infra("MockSeq printed no histories:\n%s", core.Tail(res.Output, 30))
	}
	return buf.Bytes(), len(lines), nil
}

func tlaBool(b bool) string {
	if b {
		return "TRUE"
	}
	return "FALSE"
}

// mappings: every method appears once as A (with its successor as B).
func mappings(methods []string, quick bool) []map[string]string {
	var out []map[string]string
	n := len(methods)
	switch {
	case n == 0:
	case n == 1:
		out = append(out, map[string]string{"A": methods[0]})
	default:
		for i := range methods {
			out = append(out, map[string]string{"A": methods[i], "B": methods[(i+1)%n]})
			if n == 2 {
				break
			}
		}
	}
	return out
}

// RunSeq is the check behind C03, C04, C07 and C08.
func RunSeq(prop, tier string, extra ...func(sc *core.Scratch, ev *core.Evidence, rep *core.Reporter) (int, error)) (int, error) {
	if !seqProps[prop] {
		return 2, fmt.Errorf("RunSeq does not decide %s", prop)
	}
	ev := core.NewEvidence(prop, tier, "model_checking")
	rep := core.NewReporter(prop)
	sc, err := core.NewScratch("rt-" + prop)
	if err != nil {
		return 2, err
	}
	defer sc.Cleanup()
	code, err := runSeq(prop, tier, sc, ev, rep)
	for _, x := range extra {
		if err != nil || code == 2 {
			break
		}
		c2, e2 := x(sc, ev, rep)
		if e2 != nil {
			code, err = 2, e2
		} else if c2 > code {
			code = c2
		}
	}
	ev.Violations = rep.Count()
	if werr := ev.Write(); werr != nil && err == nil {
		err = werr
	}
	return code, err
}

func runSeq(prop, tier string, sc *core.Scratch, ev *core.Evidence, rep *core.Reporter) (int, error) {
	moq := sc.Path("moq")
	if err := core.BuildMoq(moq); err != nil {
		return 2, err
	}
	mod, err := Generate(sc, moq, AllVariants())
	if err != nil {
		return corpusBroken(prop, rep, "moq fails on the run-time corpus", err.Error())
	}
	bin, out, err := mod.Build(false)
	if err != nil {
		if !strings.Contains(out, "mocks_gen.go") {
			return 2, core.Infra("building the driver failed (not in generated code):\n%s", core.Tail(out, 30))
		}
		return corpusBroken(prop, rep, "the generated mocks of the run-time corpus do not compile", out)
	}
	maxLen2, maxLen1 := 2, 3
	if tier == "thorough" {
		maxLen2, maxLen1 = 3, 4
	}
	if v := strings.TrimSpace(getenv("VERIF_SEQ_LEN2")); v != "" {
		maxLen2, _ = strconv.Atoi(v)
	}
	// histories per (nMethods, stub, resets)
	type hk struct {
		n            int
		stub, resets bool
	}
	histFile := map[hk]string{}
	histCount := map[hk]int{}
	var mu sync.Mutex
	var wg sync.WaitGroup
	var herr error
	for _, n := range []int{1, 2} {
		for _, stub := range []bool{false, true} {
			for _, resets := range []bool{false, true} {
				wg.Add(1)
				go func(k hk) {
					defer wg.Done()
					ml := maxLen2
					if k.n == 1 {
						ml = maxLen1
					}
					b, cnt, err := histories(sc, ev, k.n, k.stub, k.resets, ml)
					mu.Lock()
					defer mu.Unlock()
					if err != nil {
						if herr == nil {
							herr = err
						}
						return
					}
					f := sc.Path(fmt.Sprintf("hist-%d-%v-%v.ndjson", k.n, k.stub, k.resets))
					core.WriteFile(f, b)
					histFile[k], histCount[k] = f, cnt
				}(hk{n, stub, resets})
			}
		}
	}
	wg.Wait()
	if herr != nil {
		return 2, herr
	}
	var jobs []any
	var jobMeta []seqJob
	for _, mk := range mod.Mocks {
		for _, mp := range mappings(mk.Methods, tier != "thorough") {
			k := hk{len(mp), mk.Variant.Stub, mk.Variant.Resets}
			j := seqJob{Kind: "replay", Mock: mk.Key, Map: mp, HistFile: histFile[k], MaxMismatch: 5}
			jobs = append(jobs, j)
			jobMeta = append(jobMeta, j)
		}
	}
	// code -> spec: recorded random traces, validated by TLC (MockSeqTrace)
	recDir := sc.Path("rec")
	nTr, trLen := 6, 25
	if tier == "thorough" {
		nTr, trLen = 30, 40
	}
	var recJobs []seqJob
	for i, mk := range mod.Mocks {
		mps := mappings(mk.Methods, true)
		if len(mps) == 0 {
			continue
		}
		mp := mps[(int(core.Seed())+i)%len(mps)]
		j := seqJob{Kind: "record", Mock: mk.Key, Map: mp, Seed: core.Seed()*1000 + int64(i), Traces: nTr, Len: trLen,
			OutFile: filepath.Join(recDir, fmt.Sprintf("rec-%d.ndjson", i))}
		recJobs = append(recJobs, j)
		jobs = append(jobs, j)
		jobMeta = append(jobMeta, j)
	}
	// ... and one scripted trace per method: 45 operations, 37 of them calls of that method
	for i, mk := range mod.Mocks {
		for k, mp := range mappings(mk.Methods, true) {
			j := seqJob{Kind: "record", Mock: mk.Key, Map: mp, Seed: core.Seed(), Traces: 1, Len: 45, Script: "growth",
				OutFile: filepath.Join(recDir, fmt.Sprintf("grow-%d-%d.ndjson", i, k))}
			recJobs = append(recJobs, j)
			jobs = append(jobs, j)
			jobMeta = append(jobMeta, j)
		}
	}
	core.WriteFile(filepath.Join(recDir, ".keep"), nil)
	results, stderr, err := RunDriver[seqResult](bin, mod.Dir, "seq", jobs, 30*time.Minute)
	if err != nil || len(results) != len(jobs) {
		return 2, core.Infra("sequential driver failed: %v (got %d of %d results)\n%s", err, len(results), len(jobs), core.Tail(stderr, 30))
	}
	violations := 0
	other := map[string]int{}
	for i, r := range results {
		if r.Infra != "" {
			return 2, core.Infra("driver job %d (%s): %s", i, jobMeta[i].Mock, r.Infra)
		}
		if jobMeta[i].Kind != "replay" {
			continue
		}
		ev.Add("evaluations", int64(r.Histories))
		ev.Add("steps_replayed", int64(r.Steps))
		ev.Distinct(fmt.Sprintf("%s|%v", r.Mock, r.Map))
		if i%97 == 0 || len(ev.Coverage["samples"].([]any)) == 0 {
			ev.Sample(map[string]any{"mock": r.Mock, "map": r.Map, "histories_replayed": r.Histories, "steps": r.Steps, "nilRec": r.NilRec})
		}
		reported := false
		for _, mm := range r.Mismatches {
			if strings.Contains(","+mm.Prop+",", ","+prop+",") {
				if !reported {
					rep.Violation(prop, map[string]any{"kind": "seq-replay", "mock": r.Mock, "map": r.Map, "mismatch": mm,
						"history_file_config": jobMeta[i].HistFile, "how": "history line " + strconv.Itoa(mm.Hist) + " of MockSeq output replayed on the real mock"})
					reported = true
					violations++
				}
			} else {
				other[mm.Prop]++
			}
		}
	}
	for p, n := range other {
		ev.Note("mismatches_attributed_to_other_properties", fmt.Sprintf("%s: %d", p, n))
	}
	// validate recorded traces with TLC
	tv, err := validateSeqTraces(sc, ev, rep, prop, recJobs, mod)
	if err != nil {
		if violations > 0 {
			// the replay already produced real-code witnesses; that the recorded traces of the same
			// mocks could not even be evaluated does not take them back
			ev.Note("trace_validation_not_completed", err.Error())
			fmt.Fprintln(os.Stderr, "note: trace validation did not complete:", firstLine(err.Error()))
			ev.Violations = violations
			return 1, nil
		}
		return 2, err
	}
	violations += tv
	if prop == "C03" {
		// "with the very same argument values": also when other goroutines call the same method
		code, err := runConcOn(prop, tier, sc, ev, rep, mod)
		if err != nil || code == 2 {
			return code, err
		}
		if code == 1 {
			violations++
		}
	}
	ev.Set("rule", "a case is one (mock variant, method mapping) pair on which every complete history TLC enumerates from MockSeq is replayed; distinct by that pair")
	ev.Set("exhaustive", true)
	ev.Set("history_counts", fmt.Sprint(histCount))
	ev.Assume("mockdrv fingerprints distinguish argument values (scalars by value, references by identity)")
	ev.Assume("reflection reaches exported methods and func fields only")
	if violations > 0 {
		return 1, nil
	}
	return 0, nil
}

func getenv(k string) string {
	return strings.TrimSpace(strings.Join(strings.Fields(envLookup(k)), " "))
}

func firstLine(s string) string {
	if i := strings.IndexByte(s, '\n'); i >= 0 {
		return s[:i]
	}
	return s
}
