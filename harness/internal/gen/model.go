// Package gen: the generator family (C01, C02, C09-C14, C16, C20 and the
// library-level parts of C15, C17, C19). Abstract inputs (the universes of the
// TLA+ specifications) are materialised as Go packages on disk, pushed
// through the production moq entry points, the output is projected with
// go/parser + go/types into observation records, and TLC judges every record
// with the requirement predicates of spec/GenTrace.tla.
package gen

import (
	"fmt"
	"sort"
	"strings"
)

// Pkg is a dependency package of a world. Every dependency package declares
//
//	type T struct{ V int }      type U int
//	type G[X any] struct{ V X } type I interface{ Do(T) U }
//	type Num interface{ ~int | ~int64 }
type Pkg struct {
	Path  string `json:"path"` // full import path (module prefix included)
	Name  string `json:"name"` // package clause
	Extra string `json:"-"`    // further declarations of this dependency package
}

// T is the abstract type syntax shared with spec/MoqTypes.tla.
//
//	k: basic(n) | named(p,n,e=type args) | ptr(e0) | slice(e0) | array(e0) |
//	   map(e0,e1) | chan(e0; n = "", "send", "recv") | func(e=params, r=results) |
//	   struct(e0 = field type) | iface(e0 = method parameter type) | tparam(n)
//
// p: index into the case's package list, -1 = the source package, -2 = none
type T struct {
	K  string   `json:"k"`
	N  string   `json:"n"`
	NC []string `json:"nc"` // N as characters
	P  int      `json:"p"`
	E  []T      `json:"e"`
	R  []T      `json:"r"`
}

func cs(s string) []string {
	out := make([]string, 0, len(s))
	for _, r := range s {
		out = append(out, string(r))
	}
	return out
}

func Basic(n string) T        { return T{K: "basic", N: n, NC: cs(n), P: -2, E: []T{}, R: []T{}} }
func Named(p int, n string) T { return T{K: "named", N: n, NC: cs(n), P: p, E: []T{}, R: []T{}} }
func NamedG(p int, n string, args ...T) T {
	return T{K: "named", N: n, NC: cs(n), P: p, E: args, R: []T{}}
}
func Ptr(t T) T            { return T{K: "ptr", NC: []string{}, P: -2, E: []T{t}, R: []T{}} }
func Slice(t T) T          { return T{K: "slice", NC: []string{}, P: -2, E: []T{t}, R: []T{}} }
func Array(t T) T          { return T{K: "array", NC: []string{}, P: -2, E: []T{t}, R: []T{}} }
func Map(k, v T) T         { return T{K: "map", NC: []string{}, P: -2, E: []T{k, v}, R: []T{}} }
func Chan(d string, t T) T { return T{K: "chan", N: d, NC: []string{}, P: -2, E: []T{t}, R: []T{}} }
func Func(ps []T, rs []T) T {
	if ps == nil {
		ps = []T{}
	}
	if rs == nil {
		rs = []T{}
	}
	return T{K: "func", NC: []string{}, P: -2, E: ps, R: rs}
}
func Struct(f T) T      { return T{K: "struct", NC: []string{}, P: -2, E: []T{f}, R: []T{}} }
func IfaceT(p T) T      { return T{K: "iface", NC: []string{}, P: -2, E: []T{p}, R: []T{}} }
func AliasT(n string) T { return T{K: "alias", N: n, NC: cs(n), P: -2, E: []T{}, R: []T{}} }

// AliasIn: a type declared with `type N[...] = ...` in package p (go/types: *types.Alias)
func AliasIn(p int, n string, args ...T) T {
	if args == nil {
		args = []T{}
	}
	return T{K: "alias", N: n, NC: cs(n), P: p, E: args, R: []T{}}
}

// StructEmbed / IfaceEmbed: literals that embed a named type (whose own methods or
// fields may mention further packages the literal's text never names)
func StructEmbed(f T) T {
	return T{K: "struct", N: "embed", NC: []string{}, P: -2, E: []T{f}, R: []T{}}
}
func IfaceEmbed(f T) T  { return T{K: "iface", N: "embed", NC: []string{}, P: -2, E: []T{f}, R: []T{}} }
func TParam(n string) T { return T{K: "tparam", N: n, NC: cs(n), P: -2, E: []T{}, R: []T{}} }

type Param struct {
	Name string `json:"name"` // "" = unnamed, "_" = blank
	T    T      `json:"t"`
}

type Method struct {
	Name     string  `json:"name"`
	Params   []Param `json:"params"`
	Results  []Param `json:"results"`
	Variadic bool    `json:"variadic"`
}

type TypeParam struct {
	Name       string `json:"name"`
	Constraint string `json:"constraint"` // any | comparable | stringer | union | method | pkgnum:<idx> | mixed
}

type Iface struct {
	Name    string      `json:"name"`
	TParams []TypeParam `json:"tparams"`
	Methods []Method    `json:"methods"` // in the order moq walks them (sorted by name)
	// Aliases[i] is the import alias the file declaring method i uses for
	// package j ("" none, "." dot import); one file per method
	Aliases []map[int]string `json:"-"`
	OneFile bool             `json:"-"` // all methods in one file (needed for generics)
}

// SrcPkg is a source package: directory, path, name and interfaces.
type SrcPkg struct {
	Dir    string            `json:"dir"`
	Path   string            `json:"path"`
	Name   string            `json:"name"`
	Pkgs   []Pkg             `json:"pkgs"` // dependency packages, by index
	Ifaces []Iface           `json:"ifaces"`
	Extra  string            `json:"-"` // extra declarations (local types)
	Raw    map[string]string `json:"-"` // hand-written source files (file name -> content) instead of Ifaces
	SubDir string            `json:"-"` // extra path elements below the package's own directory (import path suffix relations)
}

// Cfg is one moq configuration.
type Cfg struct {
	Args       []string `json:"args"` // interface arguments, "I" or "I:Name"
	Dest       string   `json:"dest"` // implicit | explicitSame | srcTest | other
	PkgName    string   `json:"pkgName"`
	Stub       bool     `json:"stub"`
	SkipEnsure bool     `json:"skipEnsure"`
	WithResets bool     `json:"withResets"`
	Fmt        string   `json:"fmt"`
}

// ---- rendering ---------------------------------------------------------------

type renderer struct {
	src   *SrcPkg
	alias map[int]string // package index -> alias in this file
	used  map[int]bool
}

func (r *renderer) qual(p int) string {
	r.used[p] = true
	if a, ok := r.alias[p]; ok && a != "" {
		if a == "." {
			return ""
		}
		return a + "."
	}
	return r.src.Pkgs[p].Name + "."
}

func (r *renderer) typ(t T) string {
	switch t.K {
	case "basic":
		return t.N
	case "tparam":
		return t.N
	case "alias", "named":
		q := ""
		if t.P >= 0 {
			q = r.qual(t.P)
		}
		s := q + t.N
		if len(t.E) > 0 {
			as := make([]string, len(t.E))
			for i := range t.E {
				as[i] = r.typ(t.E[i])
			}
			s += "[" + strings.Join(as, ", ") + "]"
		}
		return s
	case "ptr":
		return "*" + r.typ(t.E[0])
	case "slice":
		return "[]" + r.typ(t.E[0])
	case "array":
		return "[2]" + r.typ(t.E[0])
	case "map":
		return "map[" + r.typ(t.E[0]) + "]" + r.typ(t.E[1])
	case "chan":
		switch t.N {
		case "send":
			return "chan<- " + r.typ(t.E[0])
		case "recv":
			return "<-chan " + r.typ(t.E[0])
		}
		return "chan " + r.typ(t.E[0])
	case "func":
		ps := make([]string, len(t.E))
		for i := range t.E {
			ps[i] = r.typ(t.E[i])
		}
		rs := make([]string, len(t.R))
		for i := range t.R {
			rs[i] = r.typ(t.R[i])
		}
		s := "func(" + strings.Join(ps, ", ") + ")"
		if len(rs) == 1 {
			s += " " + rs[0]
		} else if len(rs) > 1 {
			s += " (" + strings.Join(rs, ", ") + ")"
		}
		return s
	case "struct":
		if t.N == "embed" {
			return "struct{ " + r.typ(t.E[0]) + "; N int }"
		}
		return "struct{ F " + r.typ(t.E[0]) + " }"
	case "iface":
		if t.N == "embed" {
			return "interface{ " + r.typ(t.E[0]) + "; Extra() error }"
		}
		return "interface{ M(" + r.typ(t.E[0]) + ") }"
	}
	return "any"
}

func (r *renderer) params(ps []Param, variadic bool) string {
	out := make([]string, len(ps))
	for i, p := range ps {
		ts := r.typ(p.T)
		if variadic && i == len(ps)-1 {
			ts = "..." + strings.TrimPrefix(ts, "[]")
		}
		if p.Name == "" {
			out[i] = ts
		} else {
			out[i] = p.Name + " " + ts
		}
	}
	return strings.Join(out, ", ")
}

func (r *renderer) method(m Method) string {
	s := m.Name + "(" + r.params(m.Params, m.Variadic) + ")"
	if len(m.Results) == 1 && m.Results[0].Name == "" {
		s += " " + r.typ(m.Results[0].T)
	} else if len(m.Results) > 0 {
		s += " (" + r.params(m.Results, false) + ")"
	}
	return s
}

func (r *renderer) imports() string {
	var idx []int
	for p := range r.used {
		idx = append(idx, p)
	}
	sort.Ints(idx)
	var b strings.Builder
	for _, p := range idx {
		a := r.alias[p]
		if a != "" {
			fmt.Fprintf(&b, "import %s %q\n", a, r.src.Pkgs[p].Path)
		} else {
			fmt.Fprintf(&b, "import %q\n", r.src.Pkgs[p].Path)
		}
	}
	return b.String()
}

func constraintSrc(c string, r *renderer) string {
	switch {
	case c == "any" || c == "":
		return "any"
	case c == "comparable":
		return "comparable"
	case c == "stringer":
		return "interface{ String() string }"
	case c == "union":
		return "~int | ~string"
	case c == "method":
		return "LocalC"
	case c == "mixed":
		return "interface{ ~int; String() string }"
	case c == "ustring":
		return "~string"
	case c == "ufloat":
		return "~float32 | ~float64"
	case c == "ubytes":
		return "~string | ~[4]byte"
	case c == "cmpunion": // a term-less named interface ahead of the union
		return "interface{ comparable; ~int | ~string }"
	case c == "unioncmp":
		return "interface{ ~int | ~string; comparable }"
	case c == "localkey":
		return "LocalKey"
	case c == "markerunion":
		return "interface{ LocalMarker; ~int64 }"
	case c == "srcunion":
		return "LocalQty | int64"
	case c == "srcapprox":
		return "~[]LocalT"
	case strings.HasPrefix(c, "depunion:"):
		var p int
		fmt.Sscanf(c, "depunion:%d", &p)
		return "interface{ " + r.qual(p) + "U | ~string }"
	case strings.HasPrefix(c, "pkgnum:"):
		var p int
		fmt.Sscanf(c, "pkgnum:%d", &p)
		return r.qual(p) + "Num"
	case strings.HasPrefix(c, "pkgiface:"):
		var p int
		fmt.Sscanf(c, "pkgiface:%d", &p)
		return r.qual(p) + "I"
	case strings.HasPrefix(c, "pkgkey:"):
		var p int
		fmt.Sscanf(c, "pkgkey:%d", &p)
		return r.qual(p) + "Key"
	}
	return c
}

// Files renders the source package: file name -> contents.
func (s *SrcPkg) Files() map[string]string {
	if s.Raw != nil {
		return s.Raw
	}
	files := map[string]string{}
	var main strings.Builder
	fmt.Fprintf(&main, "package %s\n\n", s.Name)
	main.WriteString("type LocalT struct{ V int }\n\ntype LocalC interface{ Len() int }\n\ntype LocalMarker interface{}\n\ntype LocalQty int\n\ntype headers = map[string][]string\n\ntype LocalKey interface {\n\tcomparable\n\t~int | ~string\n}\n\n")
	main.WriteString(s.Extra)
	n := 0
	for _, it := range s.Ifaces {
		if it.OneFile || len(it.TParams) > 0 {
			r := &renderer{src: s, alias: map[int]string{}, used: map[int]bool{}}
			if len(it.Aliases) > 0 {
				r.alias = it.Aliases[0]
			}
			var body strings.Builder
			tp := ""
			if len(it.TParams) > 0 {
				ps := make([]string, len(it.TParams))
				for i, p := range it.TParams {
					ps[i] = p.Name + " " + constraintSrc(p.Constraint, r)
				}
				tp = "[" + strings.Join(ps, ", ") + "]"
			}
			fmt.Fprintf(&body, "type %s%s interface {\n", it.Name, tp)
			for _, m := range it.Methods {
				fmt.Fprintf(&body, "\t%s\n", r.method(m))
			}
			body.WriteString("}\n")
			n++
			files[fmt.Sprintf("f%04d_%s.go", n, strings.ToLower(it.Name))] = fmt.Sprintf("package %s\n\n%s\n%s", s.Name, r.imports(), body.String())
			continue
		}
		// one file per method: Part interfaces embedded by the main one
		fmt.Fprintf(&main, "type %s interface {\n", it.Name)
		for i, m := range it.Methods {
			r := &renderer{src: s, alias: map[int]string{}, used: map[int]bool{}}
			if i < len(it.Aliases) && it.Aliases[i] != nil {
				r.alias = it.Aliases[i]
			}
			part := fmt.Sprintf("%sPart%d", it.Name, i+1)
			body := fmt.Sprintf("type %s interface {\n\t%s\n}\n", part, r.method(m))
			n++
			files[fmt.Sprintf("f%04d_%s_%d.go", n, strings.ToLower(it.Name), i+1)] = fmt.Sprintf("package %s\n\n%s\n%s", s.Name, r.imports(), body)
			fmt.Fprintf(&main, "\t%s\n", part)
		}
		main.WriteString("}\n\n")
	}
	files["a_main.go"] = main.String()
	return files
}

// DepSource is the source of a dependency package.
func DepSource(name string) string {
	return fmt.Sprintf(`package %s

type T struct{ V int }

type U int

type G[X any] struct{ V X }

type I interface{ Do(T) U }

type Num interface{ ~int | ~int64 }

type Key interface {
	comparable
	~uint64 | ~string
}

// names that de-capitalise to keywords
type Var struct{ N int }

type Type int

type Go struct{}

type Range []int

type Func func()

// methods whose names do not start with an ASCII letter
type Unicode interface {
	Ärger(n int) error
	Überhol(v T) U
}

// a generic interface, for embedding instantiated from other packages
type Getter[T any] interface {
	Get() T
	Drain(items ...T) int
}

// alias declarations (go1.24: also generic ones, with non-named targets)
type A = T

type GA[X any] = map[string]X

type Opt[X any] = *X

type Pair[X any, Y any] struct {
	L X
	R Y
}

// named types over every kind of underlying type
type Fn func(T) (U, error)

type Sl []T

type Mp map[string]*T

type Ch chan T

const Len = 3

type Arr [Len]T

type Ptr *T
`, name)
}
