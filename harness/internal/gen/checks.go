package gen

import (
	"fmt"
	"os"
	"sort"
	"strings"
	"time"

	"verif/internal/core"
)

// corporaFor: which corpora decide which property.
func corporaFor(prop, tier string) []*Case {
	seed := core.Seed()
	var cs []*Case
	add := func(l []*Case) { cs = append(cs, l...) }
	switch prop {
	case "C01":
		add(CorpusRandom(seed, tier))
		add(CorpusRandomGeneric(seed, tier))
		add(CorpusRandomMulti(seed, tier))
		add(CorpusCross(seed, tier))
		add(CorpusTypes(seed, tier))
		add(CorpusImports(seed, tier))
		add(CorpusNames(seed, tier))
		add(CorpusGenerics(seed, tier))
		add(CorpusFlags(seed, tier))
		add(CorpusMulti(seed, tier))
		add(CorpusRaw(seed, tier))
	case "C02":
		add(CorpusRandom(seed, tier))
		add(CorpusRandomGeneric(seed, tier))
		add(CorpusRaw(seed, tier))
		add(CorpusTypes(seed, tier))
		add(CorpusGenerics(seed, tier))
		add(CorpusFlags(seed, tier))
		add(CorpusMulti(seed, tier))
		add(CorpusImports(seed, tier))
	case "C09":
		add(CorpusRandomGeneric(seed, tier))
		add(CorpusRaw(seed, tier))
		add(CorpusGenerics(seed, tier))
		add(CorpusFlags(seed, tier))
	case "C10":
		add(CorpusRandom(seed, tier))
		add(CorpusRandomGeneric(seed, tier))
		add(CorpusRandomMulti(seed, tier))
		add(CorpusRaw(seed, tier))
		add(CorpusTypes(seed, tier))
		add(CorpusGenerics(seed, tier))
		add(CorpusFlags(seed, tier))
	case "C11":
		add(CorpusRandom(seed, tier))
		add(CorpusRaw(seed, tier))
		add(CorpusImports(seed, tier))
		add(CorpusTypes(seed, tier))
		add(CorpusFlags(seed, tier))
	case "C12":
		add(CorpusRandom(seed, tier))
		add(CorpusCross(seed, tier))
		add(CorpusNames(seed, tier))
		add(CorpusTypes(seed, tier))
	case "C13":
		add(CorpusRandom(seed, tier))
		add(CorpusC13(seed, tier))
		add(CorpusCross(seed, tier))
	case "C14":
		add(CorpusRandom(seed, tier))
		add(CorpusImports(seed, tier))
		add(CorpusMulti(seed, tier))
		add(CorpusTypes(seed, tier))
	case "C16":
		add(CorpusFlags(seed, tier))
		add(CorpusRaw(seed, tier))
		add(sample(CorpusTypes(seed, tier), 3))
		add(CorpusRandomGeneric(seed, tier))
		add(CorpusRandomMulti(seed, tier))
		// several interfaces whose names and imports interact: every formatter sees the same program
		for i, c := range CorpusMulti(seed, tier) {
			if tier == "thorough" || i%3 == int(seed)%3 {
				d := *c
				d.RunFmts, d.Judge, d.Solo = true, []string{"C16"}, false
				cs = append(cs, &d)
			}
		}
	case "C20":
		add(CorpusRandomMulti(seed, tier))
		add(CorpusRaw(seed, tier))
		add(CorpusMulti(seed, tier))
		add(CorpusFlags(seed, tier))
	}
	return cs
}

// RunGen is the check behind the generator-family properties.
func RunGen(prop, tier string, extra ...func(sc *core.Scratch, ev *core.Evidence, rep *core.Reporter) (int, error)) (int, error) {
	ev := core.NewEvidence(prop, tier, "model_checking")
	rep := core.NewReporter(prop)
	sc, err := core.NewScratch("gen-" + prop)
	if err != nil {
		return 2, err
	}
	defer sc.Cleanup()
	code, err := runGen(prop, tier, sc, ev, rep)
	for _, x := range extra {
		if err != nil || code == 2 {
			break
		}
		c2, e2 := x(sc, ev, rep)
		if e2 != nil {
			code, err = 2, e2
		} else if c2 > code {
			code = c2
		}
	}
	ev.Violations = rep.Count()
	if werr := ev.Write(); werr != nil && err == nil {
		err = werr
	}
	return code, err
}

func runGen(prop, tier string, sc *core.Scratch, ev *core.Evidence, rep *core.Reporter) (int, error) {
	cases := corporaFor(prop, tier)
	if len(cases) == 0 {
		return 2, core.Infra("no corpus for %s", prop)
	}
	if prop == "C11" || prop == "C14" {
		if err := designLevel(sc, ev, rep); err != nil {
			return 2, err
		}
	}
	violations, accepted, err := EvaluateCases(prop, prop, cases, sc, ev, rep)
	if err != nil {
		return 2, err
	}
	if accepted == 0 {
		return 2, core.Infra("moq accepted none of the %d cases: the check would be vacuous", len(cases))
	}
	if violations > 0 {
		return 1, nil
	}
	return 0, nil
}

// EvaluateCases runs, predicts, judges and reports a list of cases for one property.
func EvaluateCases(prop, tag string, cases []*Case, sc *core.Scratch, ev *core.Evidence, rep *core.Reporter) (int, int, error) {
	// only the predicates of this property are judged
	for _, c := range cases {
		keep := []string{}
		for _, j := range c.Judge {
			if j == prop {
				keep = append(keep, j)
			}
		}
		c.Judge = keep
		if prop != "C14" {
			c.Repeat = 1
		}
		if prop != "C16" {
			c.RunFmts = false
		}
		if prop != "C20" {
			c.Solo = false
		}
	}
	var live []*Case
	for _, c := range cases {
		if len(c.Judge) > 0 {
			live = append(live, c)
		}
	}
	cases = live
	if !strings.HasSuffix(tag, "static") {
		cases = append(cases, Probes(prop)...)
	}
	if _, err := RunCases(sc, ev, tag, cases); err != nil {
		return 0, 0, err
	}
	preds, err := Predict(sc, ev, tag, cases)
	if err != nil {
		return 0, 0, err
	}
	{
		var keep []*Case
		dropped := 0
		for _, c := range cases {
			p := preds[c.ID]
			if c.DropKF && p != nil && (p.Crash || p.NameDup || p.FieldDup || p.Dup || p.Diverge || p.LateCapture || p.BadQual || shadowsTParam(c, p)) {
				dropped++
				continue
			}
			if prop == "C13" && c.AutoNames && p != nil {
				autoNames(c, p)
			}
			keep = append(keep, c)
		}
		cases = keep
		ev.Set("dropped_by_model_predicted_finding_shape_"+tag, dropped)
	}
	fails, err := JudgeCases(sc, ev, tag, cases)
	if err != nil {
		return 0, 0, err
	}
	kf, err := core.LoadFindings()
	if err != nil {
		return 0, 0, err
	}
	violations := 0
	accepted, rejected, crashed := 0, 0, 0
	drift := 0
	knownHit := map[string]int{}
	for _, c := range cases {
		ev.Add("evaluations", 1)
		ev.Distinct(c.Origin + "|" + fmt.Sprint(c.Cfg))
		switch c.Obs.Exit {
		case "ok":
			accepted++
		case "error":
			rejected++
			if !strings.HasPrefix(c.Origin, "args:") && !strings.HasPrefix(c.Origin, "writer:") && !strings.HasPrefix(c.Origin, "probe:") && !strings.HasPrefix(c.Origin, "imports:exotic-alias") {
				// a corpus element moq refuses is not judged at all: say so loudly
				rep.DriftNote(fmt.Sprintf("moq rejects corpus element %s (%s): its content is not judged in this run", c.Origin, firstLines(c.Obs.Err, 1)))
			}
		default:
			crashed++
		}
		p := preds[c.ID]
		if c.NoPredict {
			p = nil
		}
		if p != nil && c.Obs.Exit == "ok" && c.Obs.ParseOK && !p.Diverge && p.NFinals > 0 && !matchesPrediction(p, c.Obs) {
			drift++
			if drift <= 3 {
				rep.DriftNote(fmt.Sprintf("Registry model predicts qualifiers %v, moq chose %v (%s)", p.Finals, quals(c.Obs), c.Origin))
			}
		}
		if p != nil && c.Obs.Exit == "ok" && c.Obs.ParseOK && !p.Crash && !namesMatch(p, c.Obs) {
			drift++
			if drift <= 3 {
				var got []string
				for _, m := range c.Obs.Mocks {
					for _, me := range m.Methods {
						got = append(got, me.Name+"("+strings.Join(me.Params, ",")+")")
					}
				}
				rep.DriftNote(fmt.Sprintf("Scope model predicts parameter names %v, moq chose %v (%s)", p.Names, got, c.Origin))
			}
		}
		if p != nil && (p.Diverge || p.Crash) && c.Obs.Exit == "ok" {
			drift++
			rep.DriftNote(fmt.Sprintf("the model predicts a crash (diverge=%v nil-deref=%v) but moq produced output (%s)", p.Diverge, p.Crash, c.Origin))
		}
		if len(ev.Coverage["samples"].([]any)) < 4 && c.ID%37 == 1 {
			ev.Sample(map[string]any{"origin": c.Origin, "cfg": c.Cfg, "exit": c.Obs.Exit, "imports": c.Obs.Imports, "typeErrors": c.Obs.TypeErrors})
		}
		fl := fails[c.ID]
		bad := false
		for _, f := range fl {
			if f == prop {
				bad = true
			}
			if f == prop+"drift" {
				drift++
				rep.DriftNote(fmt.Sprintf("undocumented default name differs from the model (%s)", c.Origin))
			}
		}
		if !bad {
			continue
		}
		if id := matchFinding(kf, prop, c, p); id != "" {
			knownHit[id]++
			continue
		}
		if os.Getenv("VERIF_DEBUG") != "" {
			te := ""
			if len(c.Obs.TypeErrors) > 0 {
				te = c.Obs.TypeErrors[0]
			}
			fmt.Fprintf(os.Stderr, "DEBUG fail %s %s dest=%s stub=%v skip=%v resets=%v args=%v :: %s %s\n", prop, c.Origin, c.Cfg.Dest, c.Cfg.Stub, c.Cfg.SkipEnsure, c.Cfg.WithResets, c.Cfg.Args, firstLines(te, 1), firstLines(c.Obs.Err, 1))
		}
		rep.Violation(prop, map[string]any{"kind": "generator case fails " + prop, "failed_predicates": fl, "case": describe(c),
			"how": "real moq output projected with go/types, judged by spec/GenTrace.tla"})
		violations++
	}
	for _, f := range kf.Findings {
		if n := knownHit[f.ID]; n > 0 && f.Status == "open" {
			rep.Known(f, fmt.Sprintf("%s (%d cases of this shape in the corpus)", f.What, n))
		}
	}
	ev.Set("accepted_by_moq_"+tag, accepted)
	ev.Set("rejected_with_error_"+tag, rejected)
	ev.Set("crashed_"+tag, crashed)
	ev.Set("known_finding_cases_"+tag, knownHit)
	ev.Set("spec_drift_cases_"+tag, drift)
	if _, ok := ev.Coverage["rule"]; !ok {
		ev.Set("rule", "a case is one (source package, interface arguments, configuration) triple generated with the production entry points; distinct by corpus element and configuration")
	}
	return violations, accepted, nil
}

func quals(o *Obs) []string {
	var q []string
	for _, im := range o.Imports {
		q = append(q, im.Path+"="+im.Qual)
	}
	sort.Strings(q)
	return q
}

// CorpusC13 is defined in c13.go.

// matchFinding: does this failing case have the shape of a recorded finding?
// Shapes are predicates over the abstract input and the Registry model's
// prediction - never over the code under test.
func matchFinding(kf *core.FindingsFile, prop string, c *Case, p *Prediction) string {
	for _, f := range kf.Findings {
		if c.KF != "" && f.ID == c.KF && f.Status == "open" {
			return f.ID // a probe case built for exactly this finding
		}
	}
	if c.KF != "" {
		return ""
	}
	for _, f := range kf.Findings {
		if f.Status != "open" {
			continue
		}
		applies := f.Property == prop
		for _, a := range f.Also {
			if a == prop {
				applies = true
			}
		}
		if !applies {
			continue
		}
		if shapeMatches(string(f.Match), c, p) {
			return f.ID
		}
	}
	return ""
}

func shapeMatches(match string, c *Case, p *Prediction) bool {
	m := strings.Trim(match, `"`)
	switch m {
	case "registry:dup":
		return p != nil && p.Dup
	case "registry:diverge":
		return p != nil && p.Diverge
	case "scope:nil-deref":
		return p != nil && p.Crash
	case "scope:name-dup":
		return p != nil && p.NameDup
	case "names:field-collision":
		return p != nil && p.FieldDup
	case "scope:late-alias-capture":
		return p != nil && p.LateCapture
	case "registry:bad-alias":
		return p != nil && p.BadQual
	case "dest:explicitSame+srcTypes":
		return c.Cfg.Dest == "explicitSame" && mentionsSrc(c)
	}
	if fn, ok := shapeFuncs[m]; ok {
		return fn(c, p)
	}
	return false
}

var shapeFuncs = map[string]func(c *Case, p *Prediction) bool{}

func mentionsSrc(c *Case) bool {
	for _, arg := range c.Cfg.Args {
		in, _ := mockNameOf(arg)
		for _, it := range c.Src.Ifaces {
			if it.Name != in {
				continue
			}
			for _, tp := range it.TParams {
				if tp.Constraint == "method" || tp.Constraint == "localkey" || tp.Constraint == "markerunion" || tp.Constraint == "srcunion" || tp.Constraint == "srcapprox" {
					return true
				}
			}
			for _, m := range it.Methods {
				var idx []int
				for _, q := range m.Params {
					walk(q.T, &idx)
				}
				for _, q := range m.Results {
					walk(q.T, &idx)
				}
				for _, i := range idx {
					if i == -1 {
						return true
					}
				}
			}
		}
	}
	return false
}

// namesMatch: the observed parameter names of every method are among the
// alternatives the Scope model predicts (drift check only).
func namesMatch(p *Prediction, o *Obs) bool {
	for si, sn := range p.ScopeOf {
		if si >= len(p.Names) || si >= len(p.NParams) || p.NParams[si] < 0 {
			continue
		}
		dot := strings.LastIndex(sn, ".")
		iface, method := sn[:dot], sn[dot+1:]
		for _, m := range o.Mocks {
			if m.Iface != iface {
				continue
			}
			for _, me := range m.Methods {
				if me.Name != method {
					continue
				}
				ok := false
				for _, alt := range p.Names[si] {
					if len(alt) >= len(me.Params) && strings.Join(alt[:len(me.Params)], ",") == strings.Join(me.Params, ",") {
						ok = true
					}
				}
				if !ok {
					return false
				}
			}
		}
	}
	return true
}

// autoNames: C13 for written parameter names in rich contexts. A name is
// judged when the Registry+Scope models say it was kept verbatim (nothing
// collided when the decision was taken) AND it equals no qualifier of the
// final import block and no other final name of its method: then the property
// itself demands the verbatim name and its Exported record field.
func autoNames(c *Case, p *Prediction) {
	if c.Obs == nil || c.Obs.Exit != "ok" || len(p.Finals) != 1 {
		return
	}
	quals := map[string]bool{}
	for _, im := range c.Obs.Imports {
		quals[im.Qual] = true
	}
	si := -1
	for _, it := range requested(c) {
		for _, m := range it.Methods {
			si++
			if si >= len(p.Names) || len(p.Names[si]) != 1 {
				continue
			}
			final := p.Names[si][0]
			for k, q := range m.Params {
				if q.Name == "" || q.Name == "_" || k >= len(final) || final[k] != q.Name || quals[q.Name] {
					continue
				}
				dup := false
				for j, n := range final {
					if j != k && (n == q.Name || (j < len(m.Params) && exportedMirror(n) == exportedMirror(q.Name))) {
						dup = true
					}
				}
				if dup || c13Collides(q.Name) {
					continue
				}
				c.Names = append(c.Names, NameRec{Iface: it.Name, Method: m.Name, Index: k, NameCs: cs(q.Name), T: q.T, Judge: true})
			}
		}
		if len(it.TParams) > 0 {
			si++ // the type-parameter scope follows the methods
		}
	}
	// fill in what came out
	for k := range c.Names {
		nr := &c.Names[k]
		for _, m := range c.Obs.Mocks {
			if m.Iface != nr.Iface {
				continue
			}
			for _, me := range m.Methods {
				if me.Name == nr.Method && nr.Index < len(me.Params) && nr.Index < len(me.RecFields) {
					nr.GotParam, nr.GotField = me.Params[nr.Index], me.RecFields[nr.Index]
				}
			}
		}
	}
}

func sample(l []*Case, every int) []*Case {
	var out []*Case
	for i, c := range l {
		if i%every == 0 && c.Cfg.Fmt == "" { // (a case that fixes its formatter is not one to compare formatters on)
			c.RunFmts = true
			c.Judge = append(c.Judge, "C16")
			out = append(out, c)
		}
	}
	return out
}

// designLevel runs spec/GenMC.tla: the Registry model over its own universe of
// import paths, exhaustively, all map-order choices included.
func designLevel(sc *core.Scratch, ev *core.Evidence, rep *core.Reporter) error {
	res, err := core.RunTLC(sc, &core.TLCOpts{Module: "GenMC", Cfg: "GenMC.cfg", Workers: 1, Timeout: 20 * time.Minute, Deadlock: true})
	if err != nil {
		return err
	}
	l := core.PrintedLines(res.Output, "GENMC ")
	if len(l) != 1 {
		return core.Infra("GenMC printed no summary:\n%s", core.Tail(res.Output, 20))
	}
	var n, div, dup, nonconf, bad int
	fmt.Sscan(l[0], &n, &div, &dup, &nonconf, &bad)
	ev.AddTLC("GenMC (design level: ordered selections of up to 3 of 15 adversarial packages)", res)
	ev.Set("design_level_registry", map[string]int{"inputs": n, "diverge": div, "duplicate_qualifier": dup, "outcome_depends_on_map_order": nonconf, "unusable_alias": bad})
	if res.Violated || nonconf > 0 {
		rep.DriftNote(fmt.Sprintf("design level: the Registry model is not confluent for %d of %d inputs (candidate for C14; the verdict comes from repeated real generations)", nonconf, n))
	}
	return nil
}
