package gen

import "strings"

// Shapes of the recorded known findings: predicates over the ABSTRACT INPUT
// of a case (and the Registry model's prediction), never over the code under
// test or its output. A failing case that has the shape of an open finding of
// the property is counted under that finding; any other failure is a
// violation.

func exportedMirror(s string) string {
	if s == "" {
		return ""
	}
	for _, in := range initialisms {
		if strings.ToUpper(s) == in {
			return in
		}
	}
	return strings.ToUpper(s[:1]) + s[1:]
}

func requested(c *Case) []Iface {
	var out []Iface
	for _, arg := range c.Cfg.Args {
		in, _ := mockNameOf(arg)
		for _, it := range c.Src.Ifaces {
			if it.Name == in {
				out = append(out, it)
			}
		}
	}
	return out
}

func typeNames(t T, out map[string]bool) {
	switch t.K {
	case "basic", "tparam":
		out[t.N] = true
	case "named", "alias":
		if t.P < 0 {
			out[t.N] = true
		}
	}
	for _, e := range t.E {
		typeNames(e, out)
	}
	for _, e := range t.R {
		typeNames(e, out)
	}
}

// shadowsTParam: in some method of a requested generic interface a final
// parameter name (per the Scope model; results too under -stub) is spelled
// like a type parameter of the interface.
func shadowsTParam(c *Case, p *Prediction) bool {
	if p == nil {
		return false
	}
	si := 0
	for _, it := range requested(c) {
		first := si
		si += len(it.Methods)
		if len(it.TParams) == 0 {
			continue
		}
		// the names of the type parameters as moq will write them: the declared ones and,
		// for blank ones, what the Scope model says moq invents (the scope after the methods')
		tps := map[string]bool{}
		for _, tp := range it.TParams {
			if tp.Name != "_" {
				tps[tp.Name] = true
			}
		}
		if si < len(p.Names) {
			for _, names := range p.Names[si] {
				for _, n := range names {
					tps[n] = true
				}
			}
		}
		si++ // the type-parameter scope follows the methods
		for k, m := range it.Methods {
			if first+k >= len(p.Names) {
				continue
			}
			for _, names := range p.Names[first+k] {
				for j, n := range names {
					if j >= len(m.Params) && !c.Cfg.Stub {
						break
					}
					if tps[n] { // the receiver's type parameters and the parameters share one block
						return true
					}
				}
			}
		}
	}
	return false
}

func init() {
	shapeFuncs["names:shadows-tparam"] = shadowsTParam
	// a user-written parameter name that the generated body or signature still needs
	shapeFuncs["names:user-shadows"] = func(c *Case, p *Prediction) bool {
		for _, it := range requested(c) {
			for _, m := range it.Methods {
				used := map[string]bool{"mock": true, "callInfo": true}
				for _, q := range append(append([]Param{}, m.Params...), m.Results...) {
					typeNames(q.T, used)
				}
				for _, q := range m.Params {
					if q.Name != "" && q.Name != "_" && used[q.Name] {
						return true
					}
				}
			}
		}
		return false
	}
	// method names that collide with what the template derives from other methods
	shapeFuncs["methods:name-collision"] = func(c *Case, p *Prediction) bool {
		for _, it := range requested(c) {
			names := map[string]bool{}
			for _, m := range it.Methods {
				names[m.Name] = true
			}
			for n := range names {
				if names[n+"Func"] || names[n+"Calls"] || names["Reset"+n+"Calls"] || n == "calls" || (n == "ResetCalls" && c.Cfg.WithResets) || (n == "Reset" && c.Cfg.WithResets) {
					return true
				}
			}
		}
		return false
	}
	// one mock name requested twice
	shapeFuncs["args:duplicate-mock-name"] = func(c *Case, p *Prediction) bool {
		seen := map[string]bool{}
		for _, a := range c.Cfg.Args {
			_, mn := mockNameOf(a)
			if seen[mn] {
				return true
			}
			seen[mn] = true
		}
		return false
	}
	// two distinct parameters of one method share a record field name
	shapeFuncs["names:exported-collision"] = func(c *Case, p *Prediction) bool {
		for _, it := range requested(c) {
			for _, m := range it.Methods {
				seen := map[string]string{}
				for _, q := range m.Params {
					if q.Name == "" || q.Name == "_" {
						continue
					}
					e := exportedMirror(q.Name)
					if o, ok := seen[e]; ok && o != q.Name {
						return true
					}
					seen[e] = q.Name
				}
			}
		}
		return false
	}
	// the self-check needs a type argument the constraint's own type cannot be
	shapeFuncs["generic:unrepresentable-constraint"] = func(c *Case, p *Prediction) bool {
		if c.Cfg.SkipEnsure {
			return false
		}
		for _, it := range requested(c) {
			for _, tp := range it.TParams {
				if tp.Constraint == "comparable" || tp.Constraint == "mixed" {
					return true
				}
			}
		}
		return false
	}
	// a type parameter whose name the template re-spells (Exported) in some places only
	shapeFuncs["generic:respelled-tparam"] = func(c *Case, p *Prediction) bool {
		for _, it := range requested(c) {
			for _, tp := range it.TParams {
				if exportedMirror(tp.Name) != tp.Name {
					return true
				}
			}
		}
		return false
	}
}
