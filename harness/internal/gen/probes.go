package gen

// Probes: the minimal input of every recorded finding, run with the check of
// each property the finding touches. A probe that still fails prints the
// KNOWN-FINDING line of its finding; one that passes (the defect was repaired)
// prints nothing. Probes are their own cases, so nothing else can hide behind
// them, and they keep the KNOWN-FINDING lines independent of corpus sampling.
func Probes(prop string) []*Case {
	var out []*Case
	add := func(kf string, props []string, c *Case) {
		for _, p := range props {
			if p == prop {
				c.KF = kf
				c.Origin = "probe:" + kf
				c.Judge = []string{prop}
				out = append(out, c)
				return
			}
		}
	}
	same := []Pkg{dep("y", "x", "xy"), dep("y", "x", "y")}
	add("KF-01", []string{"C11", "C01", "C02"}, &Case{Src: newSrc("probe01", same, Iface{Name: "P", Methods: []Method{
		meth("M1", ps(par("v", Named(0, "T"))), nil), meth("M2", ps(par("v", Named(1, "T"))), nil)}, Aliases: []map[int]string{{}, {}}}),
		Cfg: Cfg{Dest: "implicit", Args: []string{"P"}}})
	sanEq := []Pkg{dep("y", "x", "a-b"), dep("y", "x", "ab")}
	add("KF-02", []string{"C19"}, &Case{Src: newSrc("probe02", sanEq, Iface{Name: "P", Methods: []Method{
		meth("M1", ps(par("v", Named(0, "T"))), nil), meth("M2", ps(par("v", Named(1, "T"))), nil)}, Aliases: []map[int]string{{}, {}}}),
		Cfg: Cfg{Dest: "implicit", Args: []string{"P"}}})
	one := []Pkg{dep("alpha", "x", "alpha"), dep("s1", "n", "s1")}
	add("KF-03", []string{"C12", "C01"}, &Case{Src: newSrc("probe03", one, Iface{Name: "P", Methods: []Method{
		meth("Do", ps(par("id", Basic("int")), par("ID", Basic("int"))), nil)}}), Cfg: Cfg{Dest: "implicit", Args: []string{"P"}}})
	add("KF-04", []string{"C09", "C01"}, &Case{Src: newSrc("probe04", one, Iface{Name: "P", OneFile: true, TParams: []TypeParam{{Name: "T", Constraint: "comparable"}},
		Methods: []Method{meth("Get", ps(par("k", TParam("T"))), ps(par("", Basic("bool"))))}}), Cfg: Cfg{Dest: "implicit", Args: []string{"P"}}})
	add("KF-05", []string{"C09", "C01", "C02"}, &Case{Src: newSrc("probe05", one, Iface{Name: "P", OneFile: true, TParams: []TypeParam{{Name: "t", Constraint: "any"}},
		Methods: []Method{meth("Get", ps(par("k", TParam("t"))), ps(par("", TParam("t"))))}}), Cfg: Cfg{Dest: "implicit", Args: []string{"P"}}})
	add("KF-06", []string{"C10", "C01", "C02"}, &Case{Src: newSrc("probe06", one, Iface{Name: "P", Methods: []Method{
		meth("Do", ps(par("l", Named(-1, "LocalT"))), nil)}}), Cfg: Cfg{Dest: "explicitSame", Args: []string{"P"}}})
	add("KF-07", []string{"C19"}, &Case{Src: newSrc("probe07", one, Iface{Name: "P", Methods: []Method{
		meth("Do", ps(par("", Basic("string")), par("", Basic("string")), par("", Named(1, "T")), par("", Basic("string"))), nil)}}),
		Cfg: Cfg{Dest: "implicit", Args: []string{"P"}}})
	add("KF-08", []string{"C12", "C01"}, &Case{Src: newSrc("probe08", one, Iface{Name: "P", Methods: []Method{
		meth("Do", ps(par("s2", Basic("int")), par("_", Basic("string")), par("_", Basic("string"))), nil)}}), Cfg: Cfg{Dest: "implicit", Args: []string{"P"}}})
	two := []Pkg{dep("client", "one", "client"), dep("client", "two", "client")}
	add("KF-12", []string{"C12", "C01"}, &Case{Src: newSrc("probe12", two, Iface{Name: "P", Methods: []Method{
		meth("Ma", ps(par("oneclient", Basic("int")), par("c", Named(0, "T"))), nil), meth("Mb", ps(par("c", Named(1, "T"))), nil)},
		Aliases: []map[int]string{{}, {}}}), Cfg: Cfg{Dest: "implicit", Args: []string{"P"}}})
	add("KF-13", []string{"C01"}, &Case{Src: newSrc("probe13", one, Iface{Name: "P", Methods: []Method{
		meth("Do", ps(par("a", Basic("int"))), nil), meth("DoCalls", nil, ps(par("", Basic("int")))), meth("DoFunc", ps(par("s", Basic("string"))), nil)}}),
		Cfg: Cfg{Dest: "implicit", Args: []string{"P"}}})
	add("KF-14", []string{"C20", "C01"}, &Case{Src: newSrc("probe14", one, Iface{Name: "P", Methods: []Method{
		meth("Do", ps(par("a", Basic("int"))), nil)}}), Cfg: Cfg{Dest: "implicit", Args: []string{"P", "P"}}, Solo: true})
	add("KF-15", []string{"C12", "C01"}, &Case{Src: newSrc("probe15", one, Iface{Name: "P", Methods: []Method{
		meth("Do", ps(par("string", Basic("string")), par("s", Basic("string"))), nil)}}), Cfg: Cfg{Dest: "implicit", Args: []string{"P"}}})
	add("KF-17", []string{"C12", "C01", "C09"}, &Case{Src: newSrc("probe17", one, Iface{Name: "P", OneFile: true, TParams: []TypeParam{{Name: "t", Constraint: "any"}},
		Methods: []Method{meth("Do", ps(par("_", Named(0, "T")), par("v", TParam("t"))), nil)}}), Cfg: Cfg{Dest: "implicit", Args: []string{"P"}}})
	kw := []Pkg{dep("y", "p", "go"), dep("y", "q", "y")}
	add("KF-18", []string{"C11", "C01"}, &Case{Src: newSrc("probe18", kw, Iface{Name: "P", Methods: []Method{
		meth("M1", ps(par("v", Named(0, "T"))), nil), meth("M2", ps(par("v", Named(1, "T"))), nil)}, Aliases: []map[int]string{{}, {}}}),
		Cfg: Cfg{Dest: "implicit", Fmt: "noop", Args: []string{"P"}}})
	add("KF-20", []string{"C09", "C01", "C10", "C11"}, &Case{Src: newSrc("probe20", one, Iface{Name: "P", OneFile: true, TParams: []TypeParam{{Name: "K", Constraint: "depunion:0"}, {Name: "V", Constraint: "any"}},
		Methods: []Method{meth("Get", ps(par("k", TParam("K"))), ps(par("", TParam("V")), par("", Basic("bool"))))}}), Cfg: Cfg{Dest: "other", Args: []string{"P"}}})
	add("KF-16", []string{"C01", "C11"}, &Case{NoPredict: true, Src: &SrcPkg{Name: "probe16", Pkgs: []Pkg{}, Raw: map[string]string{"p.go": "package probe16\n\nimport \"unsafe\"\n\ntype P interface {\n\tPtr(p unsafe.Pointer) uintptr\n}\n"}},
		Cfg: Cfg{Dest: "implicit", Args: []string{"P"}}})
	if prop == "C15" {
		pk := []Pkg{dep("codec", "m", "codec"), dep("store", "m", "store"), dep("codec", "n", "codec")}
		ifs := []Iface{
			{Name: "Reader", Methods: []Method{meth("Read", ps(par("codec", Basic("string")), par("store", Basic("int"))), ps(par("", errT)))}},
			{Name: "Writer", Methods: []Method{meth("Write", ps(par("c", Named(0, "T")), par("s", Named(1, "T"))), ps(par("", errT)))}},
			{Name: "Other", Methods: []Method{meth("Use", ps(par("c", Named(2, "T"))), nil)}},
		}
		out = append(out, &Case{KF: "KF-11", Origin: "probe:KF-11", Judge: []string{"C15"}, Src: newSrc("probe11", pk, ifs...),
			Cfg: Cfg{Dest: "implicit", Args: []string{"Other", "Reader", "Writer"}}, Install: "zz_moq_generated.go"})
	}
	return out
}
