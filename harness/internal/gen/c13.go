package gen

import (
	"fmt"
	"strings"
)

var initialisms = []string{"ACL", "API", "ASCII", "CPU", "CSS", "DNS", "EOF", "GUID", "HTML", "HTTP", "HTTPS", "ID", "IP", "JSON", "LHS",
	"QPS", "RAM", "RHS", "RPC", "SLA", "SMTP", "SQL", "SSH", "TCP", "TLS", "TTL", "UDP", "UI", "UID", "UUID", "URI",
	"URL", "UTF8", "VM", "XML", "XMPP", "XSRF", "XSS"}

var goKeywords = map[string]bool{"break": true, "default": true, "func": true, "interface": true, "select": true, "case": true, "defer": true, "go": true,
	"map": true, "struct": true, "chan": true, "else": true, "goto": true, "package": true, "switch": true, "const": true, "fallthrough": true, "if": true,
	"range": true, "type": true, "continue": true, "for": true, "import": true, "return": true, "var": true}

// names that cannot be judged by C13's rule because they collide with
// something by construction (the receiver, the record variable, imports of
// the generated file, predeclared type names the record struct needs)
func c13Collides(n string) bool {
	switch n {
	case "mock", "callInfo", "sync", "int", "string", "_":
		return true
	}
	return goKeywords[n]
}

// casings enumerates every upper/lower casing of s (2^len).
func casings(s string) []string {
	low := strings.ToLower(s)
	n := len(low)
	var out []string
	for m := 0; m < 1<<n; m++ {
		b := []byte(low)
		for i := 0; i < n; i++ {
			if m&(1<<i) != 0 {
				b[i] = strings.ToUpper(string(b[i]))[0]
			}
		}
		out = append(out, string(b))
	}
	return out
}

// CorpusC13: one single-parameter method per name, so nothing can collide.
// Named parameters: every initialism in every casing (UTF8 included), near
// misses, ordinary names. Unnamed parameters: every type shape.
func CorpusC13(seed int64, tier string) []*Case {
	var names []string
	seen := map[string]bool{}
	add := func(n string) {
		if n == "" || seen[n] || c13Collides(n) {
			return
		}
		if n[0] >= '0' && n[0] <= '9' {
			return
		}
		seen[n] = true
		names = append(names, n)
	}
	for _, in := range initialisms {
		for _, c := range casings(in) {
			add(c)
		}
		l := strings.ToLower(in)
		for _, near := range []string{l + "s", l + "2", l + "_", "x" + l, l + "x", "my" + in, l + "Id", "_" + l, strings.ToUpper(l[:1]) + l[1:] + "Value", l + "_" + l} {
			add(near)
		}
	}
	for _, n := range []string{"a", "A", "ctx", "value", "Value", "userID", "userId", "apiKey", "apikey", "payload", "payLoad", "x1", "X_1", "_x", "name", "Name", "fooBar", "FOOBAR", "v", "err", "s", "n", "b", "f"} {
		add(n)
	}
	if tier != "thorough" {
		// quick: a third of the casings, all near misses and plain names (rotating with the seed)
		var sub []string
		for i, n := range names {
			isCasing := false
			for _, in := range initialisms {
				if strings.EqualFold(n, in) {
					isCasing = true
				}
			}
			if !isCasing || (i+int(seed))%3 == 0 || strings.ContainsAny(n, "0123456789") {
				sub = append(sub, n)
			}
		}
		names = sub
	}
	pkgs := []Pkg{dep("alpha", "x", "alpha"), dep("beta", "x", "beta")}
	var cases []*Case
	per := 60
	for i := 0; i < len(names); i += per {
		j := i + per
		if j > len(names) {
			j = len(names)
		}
		it := Iface{Name: fmt.Sprintf("Nm%03d", i/per), OneFile: true}
		var recs []NameRec
		for k, n := range names[i:j] {
			mn := fmt.Sprintf("M%03d", k)
			t := Basic("bool")
			it.Methods = append(it.Methods, meth(mn, ps(par(n, t)), nil))
			recs = append(recs, NameRec{Iface: it.Name, Method: mn, Index: 0, NameCs: cs(n), T: t, Judge: true})
		}
		src := newSrc("c13src", pkgs, it)
		cfg := Cfg{Dest: "implicit", Args: []string{it.Name}}
		if (i/per)%3 == 1 {
			cfg = Cfg{Dest: "other", Stub: true, WithResets: true, Args: []string{it.Name}}
		}
		cases = append(cases, &Case{Origin: "c13:names:" + it.Name, Src: src, Cfg: cfg, Judge: []string{"C13"}, Names: recs})
	}
	// unnamed parameters of every type shape; a shape whose package qualifier
	// could equal the generated name is not judged (a collision forces a rename)
	it := Iface{Name: "Unnamed", OneFile: true}
	var recs []NameRec
	shapes := typeShapes()
	extra := []struct {
		Name string
		T    T
	}{{"I8", Basic("int8")}, {"U64", Basic("uint64")}, {"Rune", Basic("rune")}, {"F32", Basic("float32")}, {"C128", Basic("complex128")}, {"Uptr", Basic("uintptr")},
		{"SInt", Slice(Basic("int"))}, {"SStr", Slice(Basic("string"))}, {"SS", Slice(Slice(Basic("int")))}, {"MapSI", Map(Basic("string"), Basic("int"))},
		{"ChI", Chan("", Basic("int"))}, {"PStr", Ptr(Basic("string"))}, {"ArrB", Array(Basic("bool"))}, {"MapLL", Map(Named(-1, "LocalT"), Slice(Named(-1, "LocalT")))}}
	shapes = append(shapes, extra...)
	for k, sh := range shapes {
		mn := fmt.Sprintf("U%03d%s", k, sh.Name)
		it.Methods = append(it.Methods, meth(mn, ps(par("", sh.T)), nil))
		recs = append(recs, NameRec{Iface: it.Name, Method: mn, Index: 0, NameCs: []string{}, T: sh.T, Judge: !unsignedBasic(sh.T)})
	}
	src := newSrc("c13u", pkgs, it)
	cases = append(cases, &Case{Origin: "c13:unnamed", Src: src, Cfg: Cfg{Dest: "implicit", Args: []string{"Unnamed"}}, Judge: []string{"C13"}, Names: recs})
	// probe of the recorded finding about unsigned integer kinds (its own case,
	// so that nothing else can hide behind it)
	pit := Iface{Name: "UnsignedProbe", OneFile: true}
	var precs []NameRec
	for k, n := range []string{"uint", "uint8", "uint16", "uint32", "uint64", "uintptr", "byte"} {
		mn := fmt.Sprintf("P%02d", k)
		pit.Methods = append(pit.Methods, meth(mn, ps(par("", Basic(n))), nil))
		precs = append(precs, NameRec{Iface: pit.Name, Method: mn, Index: 0, NameCs: []string{}, T: Basic(n), Judge: true})
	}
	cases = append(cases, &Case{Origin: "c13:unsigned-probe", Src: newSrc("c13p", pkgs, pit), Cfg: Cfg{Dest: "implicit", Args: []string{"UnsignedProbe"}},
		Judge: []string{"C13"}, Names: precs, KF: "KF-09"})
	// parameters spelled like the SOURCE package, generated in place: nothing is imported
	// under that name, the written name stays (whatever the order of the interfaces)
	usr := newSrc("user", pkgs,
		Iface{Name: "Store", OneFile: true, Methods: []Method{meth("Save", ps(par("ctx", Basic("int")), par("user", Ptr(Named(-1, "LocalT")))), ps(par("", errT))), meth("Touch", ps(par("user", Named(-1, "LocalT")), par("n", Basic("int"))), nil)}},
		Iface{Name: "Plain", OneFile: true, Methods: []Method{meth("Rename", ps(par("user", Basic("string")), par("to", Basic("string"))), nil)}})
	urecs := func() []NameRec {
		return []NameRec{{Iface: "Store", Method: "Save", Index: 1, NameCs: cs("user"), T: Ptr(Named(-1, "LocalT")), Judge: true},
			{Iface: "Store", Method: "Touch", Index: 0, NameCs: cs("user"), T: Named(-1, "LocalT"), Judge: true},
			{Iface: "Plain", Method: "Rename", Index: 0, NameCs: cs("user"), T: Basic("string"), Judge: true}}
	}
	for _, args := range [][]string{{"Store", "Plain"}, {"Plain", "Store"}} {
		cases = append(cases, &Case{Origin: "c13:named-like-source-package:" + strings.Join(args, ","), Src: usr, Cfg: Cfg{Dest: "implicit", Args: args}, Judge: []string{"C13"}, Names: urecs()})
	}
	recs2 := append([]NameRec(nil), recs...)
	cases = append(cases, &Case{Origin: "c13:unnamed:other", Src: src, Cfg: Cfg{Dest: "other", Stub: true, Args: []string{"Unnamed"}}, Judge: []string{"C13"}, Names: recs2})
	return cases
}

// unsignedBasic: the shape of known finding KF-C13-unsigned (an unnamed
// parameter of an unsigned integer kind is called v, not n)
func unsignedBasic(t T) bool {
	if t.K != "basic" {
		return false
	}
	switch t.N {
	case "uint", "uint8", "uint16", "uint32", "uint64", "uintptr", "byte":
		return true
	}
	return false
}
