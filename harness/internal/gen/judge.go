package gen

import (
	"bytes"
	"encoding/json"
	"fmt"
	"go/ast"
	"go/format"
	"go/parser"
	"go/token"
	"os"
	"path/filepath"
	"sort"
	"strconv"
	"strings"
	"time"

	"verif/internal/core"
)

// Case is one generation to run and judge.
type Case struct {
	ID            int
	Origin        string // which corpus / universe element
	Src           *SrcPkg
	Cfg           Cfg
	Judge         []string // properties this case is built to decide
	Repeat        int      // fresh generator instances (C14)
	RunFmts       bool     // also run the other formatters (C16)
	Solo          bool     // also run every argument alone (C20)
	Names         []NameRec
	KF            string            // id of the known finding whose shape this input has ("" = none)
	NoPredict     bool              // hand-written source: outside the abstract syntax of the models
	AutoNames     bool              // C13: judge every written parameter name the models say collides with nothing
	DropKF        bool              // leave the case out when the models predict the shape of a recorded finding
	Install       string            // regenerate with the first output installed under this file name (C15)
	AliasOverride map[string]string // model input only: aliases as harvested when moq's own output is part of the package
	FailAfter     *int              // writer that fails after so many bytes (C17)

	Resp     *GenResp
	Obs      *Obs
	Solos    []MockObs
	SoloIdx  []int
	SoloErrs int // solo generations whose output does not type-check
}

// NameRec is one parameter whose naming C13 judges.
type NameRec struct {
	Iface     string   `json:"iface"`
	Method    string   `json:"method"`
	Index     int      `json:"index"`
	NameCs    []string `json:"nameCs"`
	T         T        `json:"t"`
	Judge     bool     `json:"judge"`
	DriftOnly bool     `json:"driftOnly"`
	GotParam  string   `json:"gotParam"`
	GotField  string   `json:"gotField"`
}

type srcAlias struct {
	Path  string `json:"path"`
	Alias string `json:"alias"`
}

type caseRec struct {
	Case          int        `json:"case"`
	Origin        string     `json:"origin"`
	Judge         []string   `json:"judge"`
	ExpectPkg     string     `json:"expectPkg"`
	Cfg           Cfg        `json:"cfg"`
	SrcAliases    []srcAlias `json:"srcAliases"`
	Names         []NameRec  `json:"names"`
	Solo          []MockObs  `json:"solo"`
	SoloIdx       []int      `json:"soloIdx"`
	SoloErrs      int        `json:"soloErrs"`
	FailingWriter bool       `json:"failingWriter"`
	Obs           *Obs       `json:"obs"`
}

func (c *Case) pkgName() string {
	switch c.Cfg.Dest {
	case "explicitSame":
		return c.Src.Name
	case "srcTest":
		return c.Src.Name + "_test"
	case "other":
		if c.Cfg.PkgName != "" {
			return c.Cfg.PkgName
		}
		return "mocks"
	}
	return ""
}

func (c *Case) req(fmtr string, args []string, repeat int) GenReq {
	return GenReq{SrcDir: c.Src.Dir, PkgName: c.pkgName(), Fmt: fmtr, Stub: c.Cfg.Stub, SkipEnsure: c.Cfg.SkipEnsure,
		WithResets: c.Cfg.WithResets, Args: args, Repeat: repeat, FailAfter: -1}
}

func (c *Case) srcAliases() []srcAlias {
	// parseImportsAliases walks the files in the order the loader lists them
	// (by name: interface by interface, method by method) and keeps, per import
	// path, the explicit name it saw last
	last := map[string]string{}
	for i := range c.Src.Ifaces {
		it := &c.Src.Ifaces[i]
		for mi, am := range it.Aliases {
			// deterministic order within one file does not matter: one alias per path per file
			for p, a := range am {
				if a == "" || a == "." || a == "_" {
					continue
				}
				// an alias only exists in the source if that file really imports the package
				if !fileUses(it, mi, p) {
					continue
				}
				last[c.Src.Pkgs[p].Path] = a
			}
		}
	}
	out := []srcAlias{}
	for p, a := range last {
		out = append(out, srcAlias{p, a})
	}
	sort.Slice(out, func(i, j int) bool { return out[i].Path < out[j].Path })
	return out
}

// RunCases materialises the cases' source packages in one scratch world, runs
// the production entry points for every case and projects the outputs.
func RunCases(sc *core.Scratch, ev *core.Evidence, tag string, cases []*Case) (*World, error) {
	w, err := NewWorld(sc.Path("world-" + tag))
	if err != nil {
		return nil, err
	}
	if err := w.EnsureStd(); err != nil {
		return nil, err
	}
	seen := map[*SrcPkg]bool{}
	n := 0
	for _, c := range cases {
		if !seen[c.Src] {
			seen[c.Src] = true
			n++
			if err := w.AddSrc(c.Src, fmt.Sprintf("p%04d", n)); err != nil {
				return nil, err
			}
		}
	}
	if err := w.Load(); err != nil {
		return nil, err
	}
	pool, err := NewPool(16)
	if err != nil {
		return nil, err
	}
	// request list: main run, formatter runs, solo runs
	type slot struct {
		c    *Case
		kind string
		arg  int
	}
	var reqs []GenReq
	var slots []slot
	for i, c := range cases {
		c.ID = i + 1
		c.Cfg.PkgName = c.pkgName()
		rep := c.Repeat
		if rep < 1 {
			rep = 1
		}
		r := c.req(c.Cfg.Fmt, c.Cfg.Args, rep)
		r.Cwd = w.Dir
		r.Install = c.Install
		if c.FailAfter != nil {
			r.FailAfter = *c.FailAfter
		}
		reqs = append(reqs, r)
		slots = append(slots, slot{c, "main", 0})
		if c.RunFmts {
			for _, f := range []string{"gofmt", "noop", "goimports"} {
				r := c.req(f, c.Cfg.Args, 1)
				r.Cwd = w.Dir
				reqs = append(reqs, r)
				slots = append(slots, slot{c, f, 0})
			}
		}
		if c.Solo && len(c.Cfg.Args) > 1 {
			for k, a := range c.Cfg.Args {
				r := c.req(c.Cfg.Fmt, []string{a}, 1)
				r.Cwd = w.Dir
				reqs = append(reqs, r)
				slots = append(slots, slot{c, "solo", k})
			}
		}
	}
	t0 := time.Now()
	resps, err := pool.Run(reqs)
	if err != nil {
		return nil, err
	}
	ev.Set("generation_wall_s_"+tag, time.Since(t0).Seconds())
	fm := map[*Case]map[string]*GenResp{}
	for i := range resps {
		s := slots[i]
		switch s.kind {
		case "main":
			s.c.Resp = &resps[i]
			s.c.Obs = Project(w, s.c.Src, &s.c.Cfg, &resps[i])
		case "solo":
			cfg := s.c.Cfg
			cfg.Args = []string{s.c.Cfg.Args[s.arg]}
			so := Project(w, s.c.Src, &cfg, &resps[i])
			if so.Exit == "ok" && len(so.TypeErrors) > 0 {
				s.c.SoloErrs++
			}
			if so.Exit == "ok" && len(so.Mocks) == 1 {
				s.c.Solos = append(s.c.Solos, so.Mocks[0])
				s.c.SoloIdx = append(s.c.SoloIdx, s.arg+1)
			}
		default:
			if fm[s.c] == nil {
				fm[s.c] = map[string]*GenResp{}
			}
			fm[s.c][s.kind] = &resps[i]
		}
	}
	for c, m := range fm {
		if c.Obs == nil || c.Obs.Exit != "ok" {
			continue
		}
		def := c.Resp.Out
		g, n, gi := m["gofmt"], m["noop"], m["goimports"]
		if g == nil || n == nil || gi == nil || g.Err != "" || n.Err != "" || gi.Err != "" || g.Crash != "" || n.Crash != "" || gi.Crash != "" {
			continue
		}
		c.Obs.FmtRan = true
		c.Obs.GofmtEqDefault = g.Out == def
		if f, err := format.Source([]byte(n.Out)); err == nil {
			c.Obs.NoopGofmtEqDefault = string(f) == def
		}
		fset := token.NewFileSet()
		if af, err := parser.ParseFile(fset, "gi.go", gi.Out, 0); err == nil {
			for _, d := range af.Decls {
				if gd, ok := d.(*ast.GenDecl); ok && gd.Tok == token.TYPE {
					for _, sp := range gd.Specs {
						c.Obs.GoimportsDecls = append(c.Obs.GoimportsDecls, sp.(*ast.TypeSpec).Name.Name)
					}
				}
			}
			for _, im := range af.Imports {
				p, _ := strconv.Unquote(im.Path.Value)
				c.Obs.GoimportsPaths = append(c.Obs.GoimportsPaths, p)
			}
		}
	}
	// C13 records: what names came out
	for _, c := range cases {
		if c.Obs == nil {
			continue
		}
		for k := range c.Names {
			nr := &c.Names[k]
			for _, m := range c.Obs.Mocks {
				if m.Iface != nr.Iface {
					continue
				}
				for _, me := range m.Methods {
					if me.Name == nr.Method && nr.Index < len(me.Params) && nr.Index < len(me.RecFields) {
						nr.GotParam, nr.GotField = me.Params[nr.Index], me.RecFields[nr.Index]
					}
				}
			}
		}
	}
	return w, nil
}

// JudgeCases lets TLC evaluate the requirement predicates of GenTrace on
// every case; returns per case the failed predicates.
func JudgeCases(sc *core.Scratch, ev *core.Evidence, tag string, cases []*Case) (map[int][]string, error) {
	var buf bytes.Buffer
	enc := json.NewEncoder(&buf)
	n := 0
	for _, c := range cases {
		if c.Obs == nil {
			continue
		}
		exp := c.pkgName()
		if exp == "" {
			exp = c.Src.Name
		}
		rec := caseRec{Case: c.ID, Origin: c.Origin, Judge: c.Judge, ExpectPkg: exp, Cfg: c.Cfg, SrcAliases: c.srcAliases(), Names: c.Names,
			Solo: c.Solos, SoloIdx: c.SoloIdx, SoloErrs: c.SoloErrs, Obs: c.Obs, FailingWriter: c.FailAfter != nil}
		if rec.Names == nil {
			rec.Names = []NameRec{}
		}
		if rec.Solo == nil {
			rec.Solo, rec.SoloIdx = []MockObs{}, []int{}
		}
		if rec.Cfg.Args == nil {
			rec.Cfg.Args = []string{}
		}
		if err := enc.Encode(&rec); err != nil {
			return nil, err
		}
		n++
	}
	if n == 0 {
		return map[int][]string{}, nil
	}
	if d := os.Getenv("VERIF_DUMP"); d != "" {
		core.WriteFile(filepath.Join(d, "gen-"+tag+".ndjson"), buf.Bytes())
	}
	cfg := "SPECIFICATION Spec\nCONSTANTS\n  TraceFile = \"gen.ndjson\"\nINVARIANTS Done\n"
	res, err := core.RunTLC(sc, &core.TLCOpts{Module: "GenTrace", CfgText: cfg, Workers: 1, Timeout: 30 * time.Minute,
		Files: map[string][]byte{"gen.ndjson": buf.Bytes()}, HeapGB: 8})
	if err != nil {
		core.WriteFile(filepath.Join(sc.Dir, "gen-"+tag+".ndjson"), buf.Bytes())
		return nil, err
	}
	tl := core.PrintedLines(res.Output, "GEN-LINES ")
	if res.Violated || len(tl) != 1 || tl[0] != strconv.Itoa(n) {
		return nil, core.Infra("GenTrace did not consume its %d records (reported %v, violated=%v %s):\n%s", n, tl, res.Violated, res.ViolatedBy, core.Tail(res.Output, 40))
	}
	ev.AddTLC("GenTrace "+tag+" records="+strconv.Itoa(n), res)
	ev.Add("traces_validated_against_impl", int64(n))
	fails := map[int][]string{}
	for i, d := range core.PrintedLines(res.Output, "GEN-DETAIL ") {
		if i < 12 {
			if s, err := strconv.Unquote(`"` + d + `"`); err == nil {
				ev.Note("predicate_details", s)
			}
		}
	}
	for _, f := range core.PrintedLines(res.Output, "GEN-FAIL ") {
		s, err := strconv.Unquote(`"` + f + `"`)
		if err != nil {
			s = f
		}
		var tup []any
		if json.Unmarshal([]byte(s), &tup) != nil || len(tup) != 2 {
			continue
		}
		id := int(tup[0].(float64))
		fails[id] = append(fails[id], fmt.Sprint(tup[1]))
	}
	for id := range fails {
		sort.Strings(fails[id])
	}
	return fails, nil
}

func describe(c *Case) map[string]any {
	files := c.Src.Files()
	names := make([]string, 0, len(files))
	for n := range files {
		names = append(names, n)
	}
	sort.Strings(names)
	var src strings.Builder
	for _, n := range names {
		fmt.Fprintf(&src, "// ---- %s\n%s\n", n, files[n])
	}
	d := map[string]any{"origin": c.Origin, "cfg": c.Cfg, "pkgs": c.Src.Pkgs, "source": src.String()}
	if c.Obs != nil {
		d["exit"] = c.Obs.Exit
		d["err"] = c.Obs.Err
		d["typeErrors"] = c.Obs.TypeErrors
		d["imports"] = c.Obs.Imports
	}
	if c.Resp != nil && len(c.Resp.Out) < 20000 {
		d["output"] = c.Resp.Out
	}
	return d
}

// fileUses: does the file of method mi (or, for one-file interfaces, the
// interface's file) mention package p?
func fileUses(it *Iface, mi int, p int) bool {
	uses := func(m Method) bool {
		var idx []int
		for _, q := range m.Params {
			walk(q.T, &idx)
		}
		for _, q := range m.Results {
			walk(q.T, &idx)
		}
		for _, i := range idx {
			if i == p {
				return true
			}
		}
		return false
	}
	if it.OneFile || len(it.TParams) > 0 {
		for _, tp := range it.TParams {
			if tp.Constraint == fmt.Sprintf("pkgnum:%d", p) || tp.Constraint == fmt.Sprintf("pkgiface:%d", p) || tp.Constraint == fmt.Sprintf("pkgkey:%d", p) || tp.Constraint == fmt.Sprintf("depunion:%d", p) {
				return true
			}
		}
		for _, m := range it.Methods {
			if uses(m) {
				return true
			}
		}
		return false
	}
	return mi < len(it.Methods) && uses(it.Methods[mi])
}
