package gen

import (
	"fmt"
	"math/rand"
	"strings"
)

func dep(name string, comps ...string) Pkg {
	return Pkg{Path: DepPath(append([]string{"d"}, comps...)...), Name: name}
}

func par(name string, t T) Param { return Param{Name: name, T: t} }

func meth(name string, params []Param, results []Param) Method {
	if params == nil {
		params = []Param{}
	}
	if results == nil {
		results = []Param{}
	}
	return Method{Name: name, Params: params, Results: results}
}

func ps(p ...Param) []Param { return p }

var errT = T{K: "named", N: "error", NC: cs("error"), P: -2, E: []T{}, R: []T{}}

// Dests and flag combinations.
var dests = []string{"implicit", "explicitSame", "srcTest", "other"}

func allCfgs() []Cfg {
	var out []Cfg
	for _, d := range dests {
		for b := 0; b < 8; b++ {
			out = append(out, Cfg{Dest: d, Stub: b&1 != 0, SkipEnsure: b&2 != 0, WithResets: b&4 != 0})
		}
	}
	return out
}

// rotate picks k configurations for the i-th element so that over a corpus
// every configuration is used about equally often.
func rotate(i, k int) []Cfg {
	var out []Cfg
	if k >= 32 {
		return allCfgs()
	}
	// every destination mode at least once per element, flag combinations rotating
	for j := 0; j < k; j++ {
		b := (i*3 + j*5 + j/4) % 8
		out = append(out, Cfg{Dest: dests[j%4], Stub: b&1 != 0, SkipEnsure: b&2 != 0, WithResets: b&4 != 0})
	}
	return out
}

func newSrc(name string, pkgs []Pkg, ifaces ...Iface) *SrcPkg {
	return &SrcPkg{Name: name, Pkgs: pkgs, Ifaces: ifaces}
}

var baseJudge = []string{"C01", "C02", "C08", "C10", "C11", "C12", "C14", "C19"}

// ---- corpus T: every type constructor in every signature position ----------

func typeShapes() []struct {
	Name string
	T    T
} {
	a, b := 0, 1
	return []struct {
		Name string
		T    T
	}{
		{"String", Basic("string")}, {"Int", Basic("int")}, {"Bool", Basic("bool")}, {"Float", Basic("float64")},
		{"Byte", Basic("byte")}, {"Err", errT}, {"Any", AliasT("any")}, {"Local", Named(-1, "LocalT")}, {"PLocal", Ptr(Named(-1, "LocalT"))},
		{"Dep", Named(a, "T")}, {"PDep", Ptr(Named(a, "T"))}, {"SDep", Slice(Named(a, "T"))}, {"ADep", Array(Named(b, "T"))},
		{"MapDD", Map(Named(a, "T"), Named(b, "T"))}, {"MapSD", Map(Basic("string"), Named(a, "T"))}, {"MapDS", Map(Named(b, "U"), Basic("int"))},
		{"Chan", Chan("", Named(a, "T"))}, {"ChanS", Chan("send", Named(a, "T"))}, {"ChanR", Chan("recv", Named(b, "T"))},
		{"Fn", Func([]T{Named(a, "T")}, []T{Named(b, "T")})}, {"FnErr", Func(nil, []T{errT})}, {"FnRes", Func([]T{Basic("int")}, []T{Named(b, "U"), errT})},
		{"Struct", Struct(Named(a, "T"))}, {"IfaceLit", IfaceT(Named(a, "T"))}, {"Gen", NamedG(a, "G", Named(b, "T"))}, {"GenInt", NamedG(a, "G", Basic("int"))},
		{"SPDep", Slice(Ptr(Named(a, "T")))}, {"MapSS", Map(Basic("string"), Slice(Named(b, "T")))}, {"DepU", Named(a, "U")}, {"DepI", Named(b, "I")},
		{"SliceLocal", Slice(Named(-1, "LocalT"))}, {"FnLocal", Func([]T{Named(-1, "LocalT")}, nil)}, {"PP", Ptr(Ptr(Basic("int")))},
		{"ChanFn", Chan("", Func([]T{Named(b, "T")}, nil))}, {"SliceErr", Slice(errT)}, {"MapAny", Map(Basic("string"), AliasT("any"))},
		// alias declarations, generic aliases with non-named targets
		{"AliasDep", AliasIn(a, "A")}, {"GAlias", AliasIn(a, "GA", Named(b, "T"))}, {"OptAlias", AliasIn(a, "Opt", Named(b, "T"))}, {"GAliasLocal", AliasIn(b, "GA", Named(-1, "LocalT"))},
		// one package mentioned twice, the later mention an instantiation that carries another package / a source type
		{"TwiceGen", Map(Named(a, "U"), NamedG(a, "G", Named(b, "T")))}, {"NestGen", NamedG(a, "G", NamedG(a, "G", Named(b, "T")))},
		{"TwiceLocal", Map(Named(a, "U"), NamedG(a, "G", Named(-1, "LocalT")))}, {"PairMix", NamedG(a, "Pair", NamedG(a, "G", Named(b, "U")), Named(-1, "LocalT"))},
		{"FnTwice", Func([]T{Named(a, "T"), NamedG(a, "G", Named(b, "T"))}, []T{Named(b, "U")})},
		// named types over every kind of underlying type, exotic basics
		{"NamedFn", Named(a, "Fn")}, {"NamedSl", Named(b, "Sl")}, {"NamedMp", Named(a, "Mp")}, {"NamedCh", Named(b, "Ch")}, {"NamedArr", Named(a, "Arr")},
		{"NamedPtr", Named(b, "Ptr")}, {"Complex", Basic("complex128")}, {"Uintptr", Basic("uintptr")}, {"SlOfSl", Slice(Named(a, "Sl"))}, {"FnOfFn", Func([]T{Named(a, "Fn")}, []T{Named(b, "Fn")})},
		// type names that de-capitalise to a keyword (the generated name needs the MoqParam suffix)
		{"KwVar", Named(a, "Var")}, {"KwType", Ptr(Named(b, "Type"))}, {"KwGo", Named(a, "Go")}, {"KwRange", Slice(Named(b, "Range"))}, {"KwFunc", Named(a, "Func")},
		// pointers to basic types inside composites (the element rule applies to what the pointer points to)
		{"SPStr", Slice(Ptr(Basic("string")))}, {"MapSPInt", Map(Basic("string"), Ptr(Basic("int")))}, {"ChPBool", Chan("", Ptr(Basic("bool")))}, {"APFloat", Array(Ptr(Basic("float64")))}, {"SPPInt", Slice(Ptr(Ptr(Basic("int32"))))},
		// literals that embed named types
		{"IfaceEmbed", IfaceEmbed(Named(a, "I"))}, {"StructEmbed", StructEmbed(Named(b, "T"))}, {"IfaceEmbedLocal", IfaceEmbed(Named(-1, "LocalC"))},
	}
}

func CorpusTypes(seed int64, tier string) []*Case {
	var cases []*Case
	pkgs := []Pkg{dep("alpha", "x", "alpha"), dep("beta", "x", "beta")}
	k := 4
	if tier == "thorough" {
		k = 32
	}
	a0 := 0
	for i, sh := range typeShapes() {
		t := sh.T
		it := Iface{Name: "I" + sh.Name, Methods: []Method{
			meth("Ma", ps(par("a", t)), nil),
			meth("Mb", nil, ps(par("", t))),
			{Name: "Mc", Params: ps(par("first", Basic("int")), par("rest", Slice(t))), Results: []Param{}, Variadic: true},
			meth("Md", ps(par("", t)), ps(par("", t), par("", errT))),
			meth("Me", ps(par("_", t), par("_", Basic("string"))), ps(par("res", t))),
		}}
		src := newSrc("tsrc", pkgs, it)
		for _, cfg := range rotate(i+int(seed), k) {
			cfg.Args = []string{it.Name}
			cases = append(cases, &Case{Origin: "types:" + sh.Name, Src: src, Cfg: cfg, Judge: baseJudge, Repeat: 2})
		}
		if strings.HasPrefix(sh.Name, "Kw") {
			// without a formatter nothing stands between an invalid identifier and the output
			cases = append(cases, &Case{Origin: "types:" + sh.Name + ":noop", Src: src, Cfg: Cfg{Dest: "implicit", Fmt: "noop", Args: []string{it.Name}}, Judge: []string{"C01", "C12"}})
		}
		if sh.Name == "Local" || sh.Name == "SliceLocal" {
			// source package named like a dependency that is first mentioned by a LATER
			// method than the one using the source type
			it3 := Iface{Name: "Order" + sh.Name, Methods: []Method{
				{Name: "Apply", Params: ps(par("opts", Slice(t))), Results: []Param{}, Variadic: true},
				meth("Build", ps(par("one", t)), ps(par("", t))),
				meth("Send", ps(par("x", Named(a0, "T"))), ps(par("", Named(a0, "U")))),
			}}
			src3 := newSrc("alpha", pkgs, it3)
			for _, cfg := range []Cfg{{Dest: "other"}, {Dest: "other", SkipEnsure: true}, {Dest: "srcTest", Stub: true}, {Dest: "implicit"}} {
				cfg.Args = []string{it3.Name}
				cases = append(cases, &Case{Origin: "types:" + sh.Name + ":order-srcnamed-alpha", Src: src3, Cfg: cfg, Judge: baseJudge})
			}
		}
		if sh.Name == "Local" {
			// the wrapper pattern: the source package imports a dependency under its OWN
			// name, and a source type is met before the first type of that dependency
			it4 := Iface{Name: "Wrapper", Methods: []Method{
				meth("Aa", ps(par("l", t)), ps(par("", t))),
				meth("Bb", ps(par("x", Named(1, "T"))), ps(par("", Named(1, "U")))),
			}, Aliases: []map[int]string{{}, {1: "wrap"}}}
			src4 := newSrc("wrap", pkgs, it4)
			for _, cfg := range []Cfg{{Dest: "other"}, {Dest: "other", SkipEnsure: true}, {Dest: "srcTest", Stub: true}, {Dest: "implicit", WithResets: true}} {
				cfg.Args = []string{"Wrapper"}
				cases = append(cases, &Case{Origin: "types:wrapper-alias-is-source-name", Src: src4, Cfg: cfg, Judge: baseJudge})
			}
		}
		// the same interface in a source package that is itself called like one of
		// its dependencies (matters when the mock lives in another package)
		if len(shapePkgs(t)) > 0 {
			src2 := newSrc("alpha", pkgs, it)
			for _, cfg := range []Cfg{{Dest: "other"}, {Dest: "other", SkipEnsure: true, Stub: true}, {Dest: "srcTest", WithResets: true}} {
				cfg.Args = []string{it.Name}
				cases = append(cases, &Case{Origin: "types:" + sh.Name + ":srcnamed-alpha", Src: src2, Cfg: cfg, Judge: baseJudge})
			}
		}
	}
	return cases
}

// ---- corpus I: adversarial import sets -------------------------------------

type impElem struct {
	Comps []string
	Name  string
}

func importUniverse(tier string) []impElem {
	// one package name per path (a world cannot hold two packages in one
	// directory); the relations that matter are all present: equal base names,
	// equal names after sanitising (a-b / ab), concatenation clashes (xy vs x/y),
	// version suffixes, different depths, names unrelated to the path
	u := []impElem{{[]string{"y"}, "y"}, {[]string{"x", "y"}, "y"}, {[]string{"xy"}, "y"}, {[]string{"x", "xy"}, "y"}, {[]string{"z", "y"}, "foo"},
		{[]string{"w", "xy"}, "foo"}, {[]string{"x", "a-b"}, "y"}, {[]string{"x", "ab"}, "y"}, {[]string{"go-x"}, "foo"}, {[]string{"y", "v2"}, "y"},
		{[]string{"w", "y"}, "foo"}, {[]string{"v2"}, "foo"}}
	if tier == "thorough" {
		u = append(u, impElem{[]string{"a-b"}, "y"}, impElem{[]string{"ab"}, "foo"}, impElem{[]string{"z", "xy"}, "y"}, impElem{[]string{"x", "go-x"}, "y"},
			impElem{[]string{"x", "y", "v2"}, "foo"}, impElem{[]string{"z", "foo"}, "foo"}, impElem{[]string{"x", "X"}, "y"}, impElem{[]string{"q", "z", "y"}, "y"})
	}
	return u
}

// CorpusImports: every ordered selection of up to maxLen distinct-path
// packages of the universe, each used by its own method (own file, so no
// source alias is needed and two packages may share a name), plus alias
// variants for the pairs.
func CorpusImports(seed int64, tier string) []*Case {
	u := importUniverse(tier)
	var cases []*Case
	oneType := false
	mk := func(sel []impElem, aliases []string, tag string) {
		seenPath := map[string]bool{}
		var pkgs []Pkg
		for _, e := range sel {
			p := dep(e.Name, e.Comps...)
			if seenPath[p.Path] {
				return
			}
			seenPath[p.Path] = true
			pkgs = append(pkgs, p)
		}
		it := Iface{Name: "Imp"}
		shape := len(cases) % 4
		if oneType && len(pkgs) == 2 {
			// both packages inside one parameter type: the order in which they reach
			// the registry is the type-walk order, not a map order
			// earlier parameters named after both packages, then one type that brings both in
			it.Methods = append(it.Methods, meth("M1", ps(par(pkgs[0].Name, Basic("string")), par(pkgs[1].Name, Basic("int")), par("m", Map(Named(0, "U"), Named(1, "T")))), nil))
			it.Aliases = append(it.Aliases, map[int]string{})
			// source aliases are declared by other files of the package
			for i := range pkgs {
				if i < len(aliases) && aliases[i] != "" {
					it.Methods = append(it.Methods, meth(fmt.Sprintf("N%d", i+1), ps(par("v", Named(i, "T"))), nil))
					it.Aliases = append(it.Aliases, map[int]string{i: aliases[i]})
				}
			}
		} else {
			for i := range pkgs {
				var m Method
				switch (shape + i) % 4 {
				case 0:
					m = Method{Name: fmt.Sprintf("M%d", i+1), Params: ps(par("first", Basic("int")), par("rest", Slice(Named(i, "T")))), Results: []Param{}, Variadic: true}
				case 1:
					m = meth(fmt.Sprintf("M%d", i+1), ps(par("v", Named(i, "T"))), nil)
				case 2:
					m = meth(fmt.Sprintf("M%d", i+1), ps(par("k", Basic("string"))), ps(par("", Ptr(Named(i, "T"))), par("", errT)))
				default:
					m = meth(fmt.Sprintf("M%d", i+1), ps(par("f", Func([]T{Named(i, "T")}, []T{Named(i, "U")}))), nil)
				}
				it.Methods = append(it.Methods, m)
				am := map[int]string{}
				if i < len(aliases) && aliases[i] != "" {
					am[i] = aliases[i]
				}
				it.Aliases = append(it.Aliases, am)
			}
		}
		src := newSrc("isrc", pkgs, it)
		dest := "implicit"
		if (len(cases)+int(seed))%5 == 0 {
			dest = "other"
		}
		rep := 4
		if oneType {
			rep = 10
		}
		cases = append(cases, &Case{Origin: "imports:" + tag, Src: src, Cfg: Cfg{Dest: dest, Args: []string{"Imp"}},
			Judge: []string{"C01", "C02", "C11", "C14", "C19"}, Repeat: rep})
	}
	name := func(sel []impElem) string {
		var s []string
		for _, e := range sel {
			s = append(s, strings.Join(e.Comps, "/")+"="+e.Name)
		}
		return strings.Join(s, ",")
	}
	for _, a := range u {
		mk([]impElem{a}, nil, name([]impElem{a}))
	}
	for _, a := range u {
		for _, b := range u {
			sel := []impElem{a, b}
			mk(sel, nil, name(sel))
			// source aliases: free, equal to the other package's name (either order),
			// equal to each other's would-be alias, both aliased
			for _, al := range [][]string{{"al", ""}, {"", "al"}, {b.Name, ""}, {"", a.Name}, {"al", "al2"}, {"xy", ""}, {"al", "al"}, {"v1", "v1"}} {
				if al[0] == a.Name && al[1] == "" && a.Name == b.Name {
					continue // a file cannot alias a package to the name the other file's package already has? it can: different files
				}
				mk(sel, al, name(sel)+" aliases="+strings.Join(al, "|"))
			}
			if a.Name != b.Name {
				oneType = true
				mk(sel, nil, name(sel)+" one-type")
				mk(sel, []string{b.Name, ""}, name(sel)+" one-type aliases="+b.Name+"|")
				mk(sel, []string{"", "al"}, name(sel)+" one-type aliases=|al")
				oneType = false
			}
		}
	}
	// path components that make unusable aliases once uniqueName strips and joins them:
	// a keyword (go, type), a digit first (2fa), a predeclared name the file needs (error).
	// gofmt and goimports refuse such output (a diagnostic: C19); -fmt noop lets it through.
	exotic := []impElem{{[]string{"p", "go"}, "y"}, {[]string{"q", "type"}, "foo"}, {[]string{"2fa"}, "y"}, {[]string{"r", "error"}, "y"}, {[]string{"3d", "kit"}, "foo"}}
	for _, e := range exotic {
		for _, b := range u {
			if b.Name != e.Name {
				continue
			}
			for _, sel := range [][]impElem{{e, b}, {b, e}} {
				n0 := len(cases)
				mk(sel, nil, "exotic-alias:"+name(sel))
				if len(cases) > n0 {
					c := cases[len(cases)-1]
					c.Origin = "imports:exotic-alias:noop:" + name(sel)
					c.Cfg.Fmt = "noop"
					c.Judge = []string{"C01", "C11", "C19"}
					d := *c
					d.Origin = "imports:exotic-alias:gofmt:" + name(sel)
					d.Cfg.Fmt = ""
					d.Judge = []string{"C19"}
					cases = append(cases, &d)
				}
			}
		}
	}
	// major versions of one package side by side: the paths differ only in the trailing /vN
	vers := []impElem{{[]string{"q", "store"}, "store"}, {[]string{"q", "store", "v2"}, "store"}, {[]string{"q", "store", "v3"}, "store"}}
	for _, sel := range [][]impElem{{vers[1], vers[2]}, {vers[2], vers[1]}, {vers[0], vers[1]}, {vers[1], vers[0]}, {vers[0], vers[1], vers[2]}, {vers[2], vers[0], vers[1]}} {
		mk(sel, nil, "versions:"+name(sel))
	}
	// path elements that merely contain "vendor" (multivendor/catalog): nothing is
	// vendored here, the paths must come out as they are
	vend := []impElem{{[]string{"multivendor", "catalog"}, "catalog"}, {[]string{"thirdvendor", "catalog"}, "catalog"}, {[]string{"vendorx", "kit"}, "foo"}, {[]string{"x", "vendor-kit"}, "foo"}}
	for _, a := range vend {
		mk([]impElem{a}, nil, "vendorish:"+name([]impElem{a}))
		for _, b := range append(append([]impElem{}, vend...), u[0], u[4]) {
			sel := []impElem{a, b}
			mk(sel, nil, "vendorish:"+name(sel))
		}
	}
	// one package imported under different names by different files of the source
	// package (the loader's file order decides which one moq harvests)
	for _, a := range []impElem{u[0], u[4]} {
		for vi, al := range [][]string{{"al", "al2"}, {"al2", "al"}, {"al", ""}, {"", "al"}, {"zz", "aa"}} {
			p := dep(a.Name, a.Comps...)
			it := Iface{Name: "Imp", Methods: []Method{meth("M1", ps(par("v", Named(0, "T"))), nil), meth("M2", ps(par("k", Basic("string"))), ps(par("", Ptr(Named(0, "U")))))},
				Aliases: []map[int]string{{0: al[0]}, {0: al[1]}}}
			src := newSrc("isrc", []Pkg{p}, it)
			dest := "implicit"
			if vi%2 == 1 {
				dest = "other"
			}
			cases = append(cases, &Case{Origin: "imports:two-aliases-one-package:" + name([]impElem{a}) + " " + strings.Join(al, "|"), Src: src,
				Cfg: Cfg{Dest: dest, Args: []string{"Imp"}}, Judge: []string{"C01", "C02", "C11", "C14", "C19"}, Repeat: 8})
		}
	}
	n3 := 0
	for _, a := range u {
		for _, b := range u {
			for _, c := range u {
				n3++
				if tier != "thorough" && (n3+int(seed))%4 != 0 {
					continue
				}
				sel := []impElem{a, b, c}
				mk(sel, nil, name(sel))
			}
		}
	}
	return cases
}

// ---- corpus N: parameter and result names ------------------------------------

func CorpusNames(seed int64, tier string) []*Case {
	var cases []*Case
	pkgs := []Pkg{dep("s1", "n", "s1"), dep("ctx", "n", "ctx")}
	names := []string{"", "_", "s", "s1", "s2", "n", "x", "xOut", "sMoqParam", "id", "Id", "url", "ctx", "sync", "T", "v", "err", "in", "out", "result",
		"key", "_key", "__key", "x_", "x_1", "Key_", "mock", "callInfo", "string", "int", "error", "LocalT"}
	types := []T{Basic("string"), Basic("int"), Named(0, "T"), Named(1, "T"), errT}
	rng := rand.New(rand.NewSource(seed))
	var methods []Method
	addM := func(ps, rs []Param) {
		methods = append(methods, meth(fmt.Sprintf("M%04d", len(methods)+1), ps, rs))
	}
	// all pairs of names over a few type pairs, a sample of triples, results
	for _, n1 := range names {
		for _, n2 := range names {
			if n1 != "" && n1 != "_" && n1 == n2 {
				continue // not valid Go
			}
			if (n1 == "") != (n2 == "") {
				continue // Go: parameters are all named or all unnamed
			}
			t1, t2 := types[rng.Intn(len(types))], types[rng.Intn(len(types))]
			addM(ps(par(n1, t1), par(n2, t2)), nil)
			if rng.Intn(3) == 0 {
				addM(ps(par(n1, Basic("string")), par(n2, Basic("string"))), ps(par("", Basic("string")), par("", errT)))
			}
		}
	}
	for _, n := range names {
		if n == "" || n == "_" {
			continue
		}
		for _, t := range []T{Basic("string"), Basic("int"), Named(0, "T")} {
			addM(ps(par(n, t), par("_", t), par("_", t)), nil)
			addM(ps(par("_", t), par(n, t), par("_", t)), nil)
			addM(ps(par("_", t), par("_", t), par(n, t)), ps(par("", t)))
		}
	}
	for i := 0; i < 150; i++ {
		unnamed := rng.Intn(3) == 0
		k := 3 + rng.Intn(2)
		used := map[string]bool{}
		var pl []Param
		for j := 0; j < k; j++ {
			n := names[rng.Intn(len(names))]
			if unnamed {
				n = ""
			} else if n == "" {
				n = "_"
			}
			if n != "_" && n != "" && used[n] {
				n = "_"
			}
			used[n] = true
			pl = append(pl, par(n, types[rng.Intn(len(types))]))
		}
		var rl []Param
		switch rng.Intn(3) {
		case 1:
			rl = ps(par("", types[rng.Intn(len(types))]))
		case 2:
			rn := names[2+rng.Intn(len(names)-2)]
			if used[rn] {
				rn = "res"
			}
			rl = ps(par(rn, types[rng.Intn(len(types))]), par("err2", errT))
		}
		addM(pl, rl)
	}
	// wide methods: more variables than any small pre-sized table holds, with the
	// event that forces a rename (an import spelled like an early parameter, a
	// numbering clash) arriving late; and the same with the package met first
	firstSpecial := len(methods)
	ints := func(names ...string) []Param {
		var l []Param
		for _, n := range names {
			l = append(l, par(n, Basic("int")))
		}
		return l
	}
	addM(append(append(ps(par("s1", Basic("string"))), ints("a", "b", "c", "d", "e", "f", "g", "h")...), par("late", Named(0, "T")), par("z", Basic("int"))), nil)
	addM(append(append(ps(par("x", Basic("string")), par("ctx", Basic("bool"))), ints("a", "b", "c", "d", "e", "f", "g", "h", "i")...), par("late", Ptr(Named(1, "T")))), ps(par("", errT)))
	addM(append(ps(par("first", Named(0, "T"))), append(ints("a", "b", "c", "d", "e", "f", "g", "h", "i"), par("s1", Basic("string")))...), nil)
	{
		var l []Param
		for i := 0; i < 12; i++ {
			l = append(l, par("_", Basic("string")))
		}
		addM(l, ps(par("", Basic("string")), par("", Basic("string"))))
		var u []Param
		for i := 0; i < 10; i++ {
			u = append(u, par("", Basic("int")))
		}
		addM(append(u, par("", Named(0, "T")), par("", Named(1, "T"))), nil)
	}
	// an unexported alias of the source package as the type of unnamed and blank
	// parameters (named after nothing: go/types gives it no default name)
	addM(ps(par("", AliasIn(-1, "headers")), par("", Basic("string"))), nil)
	addM(ps(par("_", AliasIn(-1, "headers")), par("h", AliasIn(-1, "headers"))), ps(par("", AliasIn(-1, "headers"))))
	// one method per interface (a recorded finding's shape in one method must not
	// hide what happens to another), all interfaces in one source package
	var ifs []Iface
	for i, m := range methods {
		ifs = append(ifs, Iface{Name: fmt.Sprintf("N%04d", i), Methods: []Method{m}})
	}
	src := newSrc("nsrc", pkgs, ifs...)
	for i, it := range ifs {
		for k, cfg := range []Cfg{{Dest: "implicit"}, {Dest: "implicit", Stub: true, WithResets: true}, {Dest: "other", Stub: true}} {
			special := i >= firstSpecial && i < firstSpecial+7
			if tier != "thorough" && (i+k+int(seed))%3 != 0 && !special {
				continue
			}
			if special && cfg.Dest == "other" && i >= firstSpecial+5 {
				continue // the unexported alias cannot be named from another package
			}
			cfg.Args = []string{it.Name}
			cases = append(cases, &Case{Origin: fmt.Sprintf("names:%s", it.Name), Src: src, Cfg: cfg, Judge: []string{"C01", "C02", "C12", "C19"}})
		}
	}
	return cases
}

// ---- corpus G: generic interfaces ---------------------------------------------

func CorpusGenerics(seed int64, tier string) []*Case {
	var cases []*Case
	// knum twice: two packages of one name, so that a later import re-aliases an earlier one
	pkgs := []Pkg{dep("alpha", "x", "alpha"), dep("knum", "x", "knum"), dep("knum", "y", "knum")}
	type g struct {
		name string
		tps  []TypeParam
	}
	var gs []g
	constraints := []string{"any", "comparable", "stringer", "union", "method", "pkgnum:1", "mixed", "ustring", "ufloat", "ubytes", "cmpunion", "unioncmp", "localkey", "markerunion", "pkgkey:1"}
	for _, c := range constraints {
		gs = append(gs, g{"G1" + strings.NewReplacer(":", "", "1", "").Replace(c), []TypeParam{{Name: "T", Constraint: c}}})
	}
	for i, c1 := range constraints {
		c2 := constraints[(i+3)%len(constraints)]
		gs = append(gs, g{fmt.Sprintf("G2x%d", i), []TypeParam{{Name: "K", Constraint: c1}, {Name: "V", Constraint: c2}}})
	}
	gs = append(gs, g{"GNumA", []TypeParam{{Name: "N", Constraint: "pkgnum:1"}, {Name: "V", Constraint: "any"}}}, g{"GNumB", []TypeParam{{Name: "V", Constraint: "any"}, {Name: "N", Constraint: "pkgnum:2"}}},
		g{"GIfaceA", []TypeParam{{Name: "K", Constraint: "pkgiface:1"}, {Name: "V", Constraint: "any"}}}, g{"GIfaceB", []TypeParam{{Name: "K", Constraint: "pkgiface:2"}}})
	gs = append(gs, g{"GKeyB", []TypeParam{{Name: "V", Constraint: "any"}, {Name: "K", Constraint: "pkgkey:2"}}},
		g{"GInit", []TypeParam{{Name: "Id", Constraint: "cmpunion"}, {Name: "url", Constraint: "any"}}}, g{"GLower2", []TypeParam{{Name: "kk", Constraint: "localkey"}, {Name: "vv", Constraint: "stringer"}}})
	// blank type parameters (moq invents a name for them) next to a parameter spelled like the usual invention
	gs = append(gs, g{"GBlank", []TypeParam{{Name: "T", Constraint: "any"}, {Name: "_", Constraint: "stringer"}}},
		g{"GBlank2", []TypeParam{{Name: "_", Constraint: "any"}, {Name: "T", Constraint: "method"}, {Name: "U", Constraint: "union"}}},
		g{"GBlank3", []TypeParam{{Name: "_", Constraint: "any"}, {Name: "_", Constraint: "ustring"}, {Name: "V", Constraint: "any"}}})
	// type terms that name types of the source package and of a dependency (imported and qualified like other types)
	gs = append(gs, g{"GSrcUnion", []TypeParam{{Name: "N", Constraint: "srcunion"}, {Name: "S", Constraint: "srcapprox"}}},
		g{"GDepUnion", []TypeParam{{Name: "K", Constraint: "depunion:1"}, {Name: "V", Constraint: "any"}}})
	gs = append(gs, g{"GLower", []TypeParam{{Name: "t", Constraint: "any"}}}, g{"GSwap", []TypeParam{{Name: "B", Constraint: "any"}, {Name: "A", Constraint: "stringer"}}},
		g{"G3", []TypeParam{{Name: "A", Constraint: "any"}, {Name: "B", Constraint: "union"}, {Name: "C", Constraint: "any"}}})
	for i, x := range gs {
		first, last := TParam(x.tps[0].Name), TParam(x.tps[len(x.tps)-1].Name)
		for _, tp := range x.tps { // a blank type parameter cannot be mentioned
			if tp.Name != "_" {
				first = TParam(tp.Name)
				break
			}
		}
		for k := len(x.tps) - 1; k >= 0; k-- {
			if x.tps[k].Name != "_" {
				last = TParam(x.tps[k].Name)
				break
			}
		}
		it := Iface{Name: x.name, TParams: x.tps, OneFile: true, Aliases: []map[int]string{{2: "knumb"}}, Methods: []Method{
			meth("Get", ps(par("k", first)), ps(par("", last), par("", Basic("bool")))),
			meth("Put", ps(par("k", first), par("v", last), par("extra", Named(0, "T"))), nil),
			meth("All", nil, ps(par("", Map(Basic("string"), Slice(last))))),
			{Name: "Many", Params: ps(par("vs", Slice(last))), Results: ps(par("", first)), Variadic: true},
			meth("Wrap", ps(par("g", NamedG(0, "G", first))), ps(par("", Ptr(last)))),
			meth("Twice", ps(par("m", Map(Named(0, "U"), NamedG(0, "G", Named(1, "T"))))), ps(par("", NamedG(0, "G", NamedG(0, "G", last))))),
			meth("Bare", ps(par("", first), par("", last)), ps(par("", last))), // unnamed parameters of type-parameter type
			meth("Zed", ps(par("other", Named(2, "T"))), nil),                  // the other package called knum, met last
		}}
		// a second, plain interface that brings in the other package called knum: when
		// it is processed AFTER the generic one, the generic mock's imports get re-aliased
		// (variants below use the generic interface WITHOUT its own mention of that package)
		it2 := it
		it2.Name = x.name + "NoZed"
		it2.Methods = nil
		for _, m := range it.Methods {
			if m.Name != "Zed" {
				it2.Methods = append(it2.Methods, m)
			}
		}
		later := Iface{Name: "Later", OneFile: true, Aliases: []map[int]string{{}}, Methods: []Method{meth("Ring", ps(par("other", Named(2, "T"))), ps(par("", Named(2, "U"))))}}
		src := newSrc("gsrc", pkgs, it)
		// its own package: no file there gives the second knum a source alias
		uses2 := false
		for _, tp := range x.tps {
			if strings.HasSuffix(tp.Constraint, ":2") {
				uses2 = true
			}
		}
		if !uses2 {
			it2.Aliases = []map[int]string{{}}
		}
		srcL := newSrc("gsrcl", pkgs, it2, later)
		k := 4
		if tier == "thorough" {
			k = 16
		}
		judge := []string{"C01", "C02", "C08", "C09", "C10", "C11", "C19"}
		for _, cfg := range rotate(i+int(seed), k) {
			cfg.Args = []string{it.Name}
			cases = append(cases, &Case{Origin: "generics:" + x.name, Src: src, Cfg: cfg, Judge: judge})
		}
		for j, cfg := range rotate(i+int(seed)+1, 2) {
			if cfg.Dest == "explicitSame" {
				cfg.Dest = "implicit"
			}
			cfg.Args = []string{it2.Name, "Later"}
			if j == 1 {
				cfg.Args = []string{"Later", it2.Name}
			}
			cases = append(cases, &Case{Origin: "generics:" + x.name + "+Later", Src: srcL, Cfg: cfg, Judge: judge})
		}
		// the source package itself called like the constraint's package, mock elsewhere
		if strings.HasPrefix(x.tps[0].Constraint, "pkg") || strings.HasPrefix(x.tps[len(x.tps)-1].Constraint, "pkg") {
			src2 := newSrc("knum", pkgs, it2, later)
			for _, cfg := range []Cfg{{Dest: "other"}, {Dest: "srcTest", WithResets: true}} {
				cfg.Args = []string{it2.Name}
				cases = append(cases, &Case{Origin: "generics:" + x.name + ":srcnamed-knum", Src: src2, Cfg: cfg, Judge: judge})
			}
		}
	}
	return cases
}

// ---- corpus F: every flag combination, every formatter --------------------------

func CorpusFlags(seed int64, tier string) []*Case {
	var cases []*Case
	pkgs := []Pkg{dep("alpha", "x", "alpha"), dep("beta", "x", "beta")}
	a := 0
	ifs := []Iface{
		{Name: "Plain", Methods: []Method{meth("Do", ps(par("s", Basic("string")), par("n", Basic("int"))), ps(par("", errT))), meth("Stop", nil, nil)}},
		{Name: "UsesSrc", Methods: []Method{meth("Get", ps(par("id", Basic("int"))), ps(par("", Ptr(Named(-1, "LocalT"))), par("", errT))), meth("Put", ps(par("t", Named(-1, "LocalT"))), nil)}},
		{Name: "UsesDep", Methods: []Method{meth("Send", ps(par("t", Named(a, "T")), par("m", Map(Basic("string"), Named(1, "T")))), ps(par("", Named(a, "U"))))}},
		{Name: "Empty"},
		{Name: "Gen", TParams: []TypeParam{{Name: "T", Constraint: "any"}}, OneFile: true, Methods: []Method{meth("One", ps(par("v", TParam("T"))), ps(par("", TParam("T")), par("", errT)))}},
		{Name: "Namey", Methods: []Method{meth("Http", ps(par("req", Basic("string"))), nil), meth("Id", nil, ps(par("", Basic("int")))), meth("Json", ps(par("v", Slice(Basic("byte")))), ps(par("", errT))),
			meth("Url", nil, ps(par("", Basic("string")), par("", errT))), meth("Uuid", ps(par("n", Basic("int"))), nil)}},
		{Name: "Vari", Methods: []Method{{Name: "Log", Params: ps(par("format", Basic("string")), par("args", Slice(AliasT("any")))), Results: []Param{}, Variadic: true}}},
		// method names that come close to what the template derives (Reset<M>Calls, <M>Calls, <M>Func) without colliding
		{Name: "Resetty", Methods: []Method{meth("Calls", nil, ps(par("", Basic("int")))), meth("FuncGet", ps(par("k", Basic("string"))), nil), meth("Get", ps(par("k", Basic("string"))), ps(par("", Basic("int")))),
			meth("GetCall", nil, nil), meth("Password", ps(par("p", Basic("string"))), nil), meth("ResetGetter", nil, nil), meth("ResetPasswordByEmail", ps(par("email", Basic("string"))), ps(par("", errT)))}},
	}
	// a dependency whose directory is not called like its package, imported under
	// an explicit alias equal to its real name (what goimports itself writes), with a
	// standard-library namesake that offers the same symbol
	jsonDep := Pkg{Path: DepPath("d", "x", "fast-json"), Name: "json", Extra: "\ntype RawMessage []byte\n"}
	codec := Iface{Name: "Codec", OneFile: true, Aliases: []map[int]string{{0: "json"}}, Methods: []Method{
		meth("Encode", ps(par("m", Named(0, "RawMessage"))), ps(par("", Named(0, "RawMessage")), par("", errT)))}}
	jsrc := newSrc("jsrc", []Pkg{jsonDep}, codec)
	for _, cfg := range []Cfg{{Dest: "implicit"}, {Dest: "other"}, {Dest: "other", SkipEnsure: true, Stub: true}} {
		cfg.Args = []string{"Codec"}
		cases = append(cases, &Case{Origin: "flags:alias-equals-name-stdlib-namesake", Src: jsrc, Cfg: cfg, RunFmts: true,
			Judge: []string{"C01", "C02", "C10", "C11", "C16", "C19"}})
	}
	// unexported interface methods can only be mocked inside the source package
	unexp := Iface{Name: "Unexp", Methods: []Method{meth("close", nil, nil), meth("get", ps(par("k", Basic("string"))), ps(par("", Basic("int")), par("", errT))),
		meth("Put", ps(par("k", Basic("string")), par("v", Named(a, "T"))), nil)}}
	usrc := newSrc("usrc", pkgs, unexp)
	for b := 0; b < 8; b++ {
		cfg := Cfg{Dest: "implicit", Stub: b&1 != 0, SkipEnsure: b&2 != 0, WithResets: b&4 != 0, Args: []string{"Unexp"}}
		cases = append(cases, &Case{Origin: "flags:unexported-methods", Src: usrc, Cfg: cfg, RunFmts: b%4 == 0,
			Judge: []string{"C01", "C02", "C08", "C11", "C12", "C16", "C19"}})
	}
	// a source package whose directory is not called like it (module path .../store/v2,
	// package store) next to a dependency of the same name: the source package itself
	// is re-aliased, by a path element
	vpk := []Pkg{dep("store", "m", "store")}
	vsrc := newSrc("store", vpk, Iface{Name: "Migrator", Methods: []Method{meth("Move", ps(par("from", Named(0, "T")), par("to", Named(-1, "LocalT"))), ps(par("", Named(0, "U")), par("", errT)))}})
	vsrc.SubDir = "v2"
	for _, cfg := range []Cfg{{Dest: "other"}, {Dest: "other", SkipEnsure: true, Stub: true}, {Dest: "srcTest", WithResets: true}, {Dest: "implicit"}} {
		cfg.Args = []string{"Migrator"}
		cases = append(cases, &Case{Origin: "flags:source-dir-v2-dependency-namesake", Src: vsrc, Cfg: cfg, RunFmts: true,
			Judge: []string{"C01", "C02", "C10", "C11", "C16", "C19"}})
	}
	// import paths whose byte order differs from their case-folded order (Shopify < aws in
	// bytes, aws < shopify folded): the import block of the default output is gofmt's
	cpk := []Pkg{dep("kit", "Shopify", "kit"), dep("smithy", "aws", "smithy"), dep("zap", "Uber", "zap")}
	csrc := newSrc("csrc", cpk, Iface{Name: "Casey", Methods: []Method{meth("Send", ps(par("k", Named(0, "T")), par("s", Named(1, "T"))), ps(par("", Named(2, "U")), par("", errT)))}})
	for _, cfg := range []Cfg{{Dest: "implicit"}, {Dest: "other", Stub: true}, {Dest: "implicit", SkipEnsure: true, WithResets: true}} {
		cfg.Args = []string{"Casey"}
		cases = append(cases, &Case{Origin: "flags:mixed-case-import-paths", Src: csrc, Cfg: cfg, RunFmts: true, Judge: []string{"C01", "C11", "C16", "C19"}})
	}
	src := newSrc("fsrc", pkgs, ifs...)
	for ci, cfg := range allCfgs() {
		if tier != "thorough" && (ci+int(seed))%4 != 0 {
			continue
		}
		for _, l := range [][]string{{"Empty", "Plain"}, {"Plain", "Empty"}, {"Gen", "Plain"}, {"Plain", "Gen", "Empty"}, {"Empty"}, {"Gen", "Vari"}} {
			c := cfg
			c.Args = l
			cases = append(cases, &Case{Origin: "flags:" + strings.Join(l, "+"), Src: src, Cfg: c, RunFmts: true, Solo: true,
				Judge: []string{"C01", "C02", "C08", "C10", "C11", "C16", "C19", "C20"}})
		}
	}
	// another package (another directory) that happens to be called like the source package
	for _, n := range []string{"UsesSrc", "Plain", "UsesDep"} {
		for _, cfg := range []Cfg{{Dest: "other", PkgName: "fsrc", SkipEnsure: true}, {Dest: "other", PkgName: "fsrc", SkipEnsure: true, Stub: true, WithResets: true}} {
			cfg.Args = []string{n}
			cases = append(cases, &Case{Origin: "flags:other-directory-same-package-name:" + n, Src: src, Cfg: cfg, Judge: []string{"C01", "C02", "C10", "C11", "C19"}})
		}
	}
	i := 0
	for ci, cfg := range allCfgs() {
		for ii, it := range ifs {
			i++
			if tier != "thorough" && (ci+ii+int(seed))%2 != 0 {
				continue
			}
			c := cfg
			c.Args = []string{it.Name}
			if (ci/2+ii)%4 == 0 {
				c.Args = []string{it.Name + ":" + it.Name + "Double"}
			}
			cases = append(cases, &Case{Origin: "flags:" + it.Name, Src: src, Cfg: c, RunFmts: true,
				Judge: []string{"C01", "C02", "C08", "C10", "C11", "C16", "C19", "C20"}})
		}
	}
	return cases
}

// ---- corpus M: several interfaces in one run -----------------------------------

func CorpusMulti(seed int64, tier string) []*Case {
	var cases []*Case
	pkgs := []Pkg{dep("codec", "m", "codec"), dep("store", "m", "store"), dep("codec", "n", "codec")}
	ifs := []Iface{
		{Name: "Reader", Methods: []Method{meth("Read", ps(par("codec", Basic("string")), par("store", Basic("int"))), ps(par("", errT)))}},
		{Name: "Writer", Methods: []Method{meth("Write", ps(par("c", Named(0, "T")), par("s", Named(1, "T"))), ps(par("", errT)))}},
		{Name: "Other", Methods: []Method{meth("Use", ps(par("c", Named(2, "T"))), nil), meth("Zap", nil, ps(par("", Named(1, "U"))))}},
		{Name: "Nothing"},
		{Name: "Cache", TParams: []TypeParam{{Name: "K", Constraint: "any"}, {Name: "V", Constraint: "any"}}, OneFile: true,
			Methods: []Method{meth("Get", ps(par("k", TParam("K"))), ps(par("", TParam("V")), par("", Basic("bool")))), meth("Put", ps(par("k", TParam("K")), par("v", TParam("V"))), nil)}},
	}
	// two interfaces in different files, each importing a different package under the same alias
	ifs = append(ifs,
		Iface{Name: "AliasA", OneFile: true, Aliases: []map[int]string{{0: "cl"}}, Methods: []Method{meth("Do", ps(par("c", Named(0, "T"))), ps(par("", Named(0, "U"))))}},
		Iface{Name: "AliasB", OneFile: true, Aliases: []map[int]string{{2: "cl"}}, Methods: []Method{meth("Do", ps(par("c", Named(2, "T"))), ps(par("", errT)))}})
	// one interface of the run has the shape of a recorded finding (KF-13: its own method
	// ResetDoCalls collides with the reset generated for Do): whatever happens to its mock,
	// the other mocks of the run are the ones they are alone
	ifs = append(ifs, Iface{Name: "Collide", Methods: []Method{meth("Do", ps(par("a", Basic("int"))), nil), meth("ResetDoCalls", nil, nil)}})
	// an unexported interface keeps its name in the default mock name, whatever the destination
	ifs = append(ifs, Iface{Name: "flusher", Methods: []Method{meth("Flush", ps(par("n", Basic("int"))), ps(par("", errT)))}})
	src := newSrc("msrc", pkgs, ifs...)
	for _, l := range [][]string{{"flusher", "Reader"}, {"Nothing", "flusher"}, {"flusher"}} {
		for _, cfg := range []Cfg{{Dest: "implicit"}, {Dest: "other", SkipEnsure: true}, {Dest: "other", SkipEnsure: true, Stub: true, WithResets: true}} {
			cfg.Args = l
			cases = append(cases, &Case{Origin: "multi:unexported-interface:" + strings.Join(l, ","), Src: src, Cfg: cfg, Solo: len(l) > 1, Judge: []string{"C01", "C20", "C19"}, Repeat: 2})
		}
	}
	for _, l := range [][]string{{"Collide", "Reader"}, {"Reader", "Collide"}, {"Writer", "Collide", "Other"}} {
		for _, cfg := range []Cfg{{Dest: "implicit", WithResets: true}, {Dest: "other", WithResets: true, Stub: true}, {Dest: "implicit"}} {
			cfg.Args = l
			cases = append(cases, &Case{Origin: "multi:finding-shaped-neighbour:" + strings.Join(l, ","), Src: src, Cfg: cfg, Solo: true, Judge: []string{"C20", "C19"}, Repeat: 2})
		}
	}
	names := []string{"Reader", "Writer", "Other", "Nothing"}
	var lists [][]string
	for _, a := range names {
		for _, b := range names {
			if a != b {
				lists = append(lists, []string{a, b})
			}
			for _, c := range names {
				if a != b && b != c && a != c {
					lists = append(lists, []string{a, b, c})
				}
			}
		}
	}
	lists = append(lists, []string{"AliasA", "AliasB"}, []string{"AliasB", "AliasA", "Writer"},
		[]string{"Cache", "Reader"}, []string{"Reader", "Cache"}, []string{"Cache", "Nothing", "Writer"}, []string{"Nothing", "Cache:Mem"},
		[]string{"Reader:Reader", "Writer"}, []string{"Writer:Other", "Reader:Nothing"}, []string{"Other:Writer"},
		[]string{"Reader:R1", "Writer:W1"}, []string{"Other:Fake", "Reader"}, []string{"Reader:ReaderDouble", "Reader:ReaderTwin"},
		[]string{"Writer:Alpha", "Other:Beta", "Reader:Gamma"}, []string{"Reader", "Writer", "Other", "Nothing"})
	for i, l := range lists {
		cfgs := []Cfg{{Dest: "implicit"}, {Dest: "other", WithResets: true}, {Dest: "other", SkipEnsure: true, Stub: true}, {Dest: "srcTest"}}
		for k, cfg := range cfgs {
			special := strings.Contains(strings.Join(l, ","), ":") || strings.Contains(strings.Join(l, ","), "Cache") || strings.Contains(strings.Join(l, ","), "Alias")
			if tier != "thorough" && (i+k+int(seed))%4 != 0 && !special {
				continue
			}
			if cfg.Dest != "other" && aliasIsIfaceName(l, names) {
				continue // in the source package an interface and a mock cannot share a name
			}
			cfg.Args = l
			cases = append(cases, &Case{Origin: "multi:" + strings.Join(l, ","), Src: src, Cfg: cfg, Solo: true, Judge: []string{"C01", "C02", "C20", "C14", "C19"}, Repeat: 3})
		}
	}
	return cases
}

func aliasIsIfaceName(args []string, names []string) bool {
	for _, a := range args {
		if i := strings.Index(a, ":"); i >= 0 {
			for _, n := range names {
				if a[i+1:] == n {
					return true
				}
			}
		}
	}
	return false
}

// ---- corpus X: effects across methods and interfaces ---------------------------
// Several methods per interface and several interfaces per run: the registry
// and (if it leaked) scope state an earlier method leaves behind meets later
// methods. Same-named packages force re-aliasing in the middle of a run;
// later methods use parameter names equal to package names, to former
// qualifiers, to numbered stems. Cases whose input has the shape of a recorded
// finding (per the models) are dropped, so nothing can hide behind one.
func CorpusCross(seed int64, tier string) []*Case {
	rng := rand.New(rand.NewSource(seed*7919 + 11))
	pkgs := []Pkg{dep("client", "one", "client"), dep("client", "two", "client"), dep("store", "m", "store"), dep("ctx", "n", "ctx")}
	names := []string{"client", "store", "ctx", "s", "s1", "s2", "n", "x", "key", "oneclient", "twoclient", "v", "id", "sync"}
	types := []T{Basic("string"), Basic("int"), Named(0, "T"), Named(1, "T"), Named(2, "T"), Named(3, "T"), errT, Basic("bool")}
	var cases []*Case
	n := 60
	if tier == "thorough" {
		n = 400
	}
	for i := 0; i < n; i++ {
		nm := 3 + rng.Intn(3)
		it := Iface{Name: fmt.Sprintf("X%03d", i)}
		for j := 0; j < nm; j++ {
			var pl []Param
			switch rng.Intn(5) {
			case 0: // unnamed, equal types: numbering
				t := types[rng.Intn(2)]
				for k := 0; k < 2+rng.Intn(2); k++ {
					pl = append(pl, par("", t))
				}
			case 1: // one lone parameter with a stem-like name
				pl = ps(par([]string{"s", "n", "s", "client", "store"}[rng.Intn(5)], types[rng.Intn(len(types))]))
			default:
				used := map[string]bool{}
				for k := 0; k < 1+rng.Intn(3); k++ {
					nmx := names[rng.Intn(len(names))]
					if used[nmx] {
						continue
					}
					used[nmx] = true
					pl = append(pl, par(nmx, types[rng.Intn(len(types))]))
				}
			}
			var rl []Param
			if rng.Intn(2) == 0 {
				rl = ps(par("", types[rng.Intn(len(types))]))
			}
			// one file cannot import two packages called client unaliased
			which := rng.Intn(2)
			fix := func(l []Param) {
				for k := range l {
					if l[k].T.K == "named" && (l[k].T.P == 0 || l[k].T.P == 1) {
						l[k].T.P = which
					}
				}
			}
			fix(pl)
			fix(rl)
			it.Methods = append(it.Methods, meth(fmt.Sprintf("M%d%c", j, 'a'+rune(rng.Intn(3))), pl, rl))
			it.Aliases = append(it.Aliases, map[int]string{})
		}
		// methods are walked in name order
		sortMethods(&it)
		src := newSrc("xsrc", pkgs, it)
		cfg := Cfg{Dest: "implicit", Args: []string{it.Name}}
		if i%4 == 1 {
			cfg = Cfg{Dest: "other", Stub: true, Args: []string{it.Name}}
		}
		cases = append(cases, &Case{Origin: "cross:" + it.Name, Src: src, Cfg: cfg, Judge: []string{"C01", "C02", "C11", "C12", "C13", "C14"}, AutoNames: true, DropKF: true, Repeat: 2})
	}
	return cases
}

func sortMethods(it *Iface) {
	for i := 1; i < len(it.Methods); i++ {
		for j := i; j > 0 && it.Methods[j].Name < it.Methods[j-1].Name; j-- {
			it.Methods[j], it.Methods[j-1] = it.Methods[j-1], it.Methods[j]
		}
	}
	// distinct names
	seen := map[string]bool{}
	var ms []Method
	for _, m := range it.Methods {
		if !seen[m.Name] {
			seen[m.Name] = true
			ms = append(ms, m)
		}
	}
	it.Methods = ms
	it.Aliases = it.Aliases[:len(ms)]
}

func shapePkgs(t T) []int {
	var idx []int
	walk(t, &idx)
	return idx
}
