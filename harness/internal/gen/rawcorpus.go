package gen

import "strings"

// CorpusRaw: hand-written source packages for the shapes the abstract syntax
// of the models does not express: embedded interfaces (local, other package,
// interface literals), alias declarations of interfaces (of a literal, of
// another package's interface, of an instantiated generic interface), generic
// embedding, methods declared in several files, standard-library types.
// Judged by the requirement predicates on the observation only.
const rawMain = `package rawsrc

import (
	"context"
	"io"
	"net/http"
	"time"
	"unsafe"

	"` + WorldMod + `/d/x/alpha"
)

type Key struct{ ID int }

// the one basic type that lives in a package
type Unsafe interface {
	Ptr(p unsafe.Pointer) uintptr
	Many(ps ...unsafe.Pointer) (byName map[string][]unsafe.Pointer)
	Anon(unsafe.Pointer, func(unsafe.Pointer) *unsafe.Pointer) (unsafe.Pointer, error)
}

func (k Key) String() string { return "k" }

// embedding: local, other package, standard library
type Base interface {
	Close() error
	Name() string
}

type Embeds interface {
	Base
	io.Reader
	alpha.I
	Extra(ctx context.Context, d time.Duration) (*http.Response, error)
}

// an embedded interface literal
type IntStore interface {
	interface {
		Get(k int) (int, bool)
	}
	Len() int
}

// alias declarations
type KeyStore = interface {
	Get(k string, opts ...string) (string, error)
	Del(k string)
}

type ReaderAlias = io.ReadCloser

type DepAlias = alpha.I

// generics: plain, embedding, alias of an instance, defined type over an instance
type Store[K interface{ String() string }, V any] interface {
	Get(k K) (V, bool)
	Put(k K, v V) error
	Keys() []K
}

type Cache[K interface{ String() string }, V any] interface {
	Store[K, V]
	Evict(k K)
}

type UserStore = Store[Key, int]

// embedding an instantiation of a generic interface of ANOTHER package: the outer
// type parameter T is not the embedded interface's T
type KV[K any, T any] interface {
	alpha.Getter[K]
	Put(k K, v T) (T, error)
}

// methods with non-ASCII names, inherited from another package and declared here
type Uni interface {
	alpha.Unicode
	Ölstand() int
}

// embedding through alias declarations and the predeclared any
type CloserAlias = io.Closer

type Sink interface {
	CloserAlias
	any
	Write(p []byte) (int, error)
}

type IntGetter interface {
	alpha.Getter[int]
	alpha.I
}

type NamedStore Store[Key, string]

type Pair[A any, B any] interface {
	First() A
	Second() B
	Swap() Pair[B, A]
}

// literals that embed named types: the embedded type's own methods and fields
// mention packages the literal's text does not
type Literals interface {
	Flush(c interface {
		context.Context
		Sync() error
	}) error
	Wrap(s struct {
		io.Reader
		N int
	}) (out struct{ http.Header })
	Each(f func(interface{ alpha.I }) error)
}

// results only, many results, named results
type Results interface {
	Two() (int, error)
	Three() (a int, b string, err error)
	None()
	Fn() func(int) (string, error)
}
`

// a source package whose import path ENDS in the path of a package it uses
// (.../time uses "time"), declaring a type of the same name as one it uses
const rawTime = `package time

import stdtime "time"

type Duration int64

type Sleeper interface {
	Sleep(d stdtime.Duration) Duration
	Until(t stdtime.Time) (stdtime.Duration, error)
	Local(d Duration) stdtime.Month
}
`

func CorpusRaw(seed int64, tier string) []*Case {
	src := &SrcPkg{Name: "rawsrc", Pkgs: []Pkg{dep("alpha", "x", "alpha")}, Raw: map[string]string{"raw.go": rawMain}}
	ifaces := []string{"Base", "Embeds", "IntStore", "KeyStore", "ReaderAlias", "DepAlias", "Store", "Cache", "UserStore", "NamedStore", "Pair", "Results", "Literals", "Unsafe", "KV", "IntGetter", "Uni", "Sink"}
	var cases []*Case
	judge := []string{"C01", "C02", "C08", "C09", "C10", "C11", "C12", "C14", "C16", "C19", "C20"}
	for i, n := range ifaces {
		k := 4
		if tier == "thorough" {
			k = 32
		}
		for _, cfg := range rotate(i+int(seed), k) {
			if cfg.Dest == "explicitSame" {
				continue // known finding KF-06 whenever source types are mentioned; kept out of the hand-written corpus
			}
			cfg.Args = []string{n}
			cases = append(cases, &Case{Origin: "raw:" + n, Src: src, Cfg: cfg, Judge: judge, NoPredict: true, Repeat: 2, RunFmts: true})
		}
	}
	tsrc := &SrcPkg{Name: "time", Pkgs: []Pkg{}, Raw: map[string]string{"time.go": rawTime}, SubDir: "time"}
	for _, cfg := range []Cfg{{Dest: "implicit"}, {Dest: "implicit", SkipEnsure: true, Stub: true}, {Dest: "other"}, {Dest: "other", SkipEnsure: true, WithResets: true}, {Dest: "srcTest"}} {
		cfg.Args = []string{"Sleeper"}
		cases = append(cases, &Case{Origin: "raw:path-suffix:Sleeper", Src: tsrc, Cfg: cfg, Judge: judge, NoPredict: true, Repeat: 2, RunFmts: true})
	}
	// several at once: same-named methods from different literals, generic next to non-generic
	for _, l := range [][]string{{"IntStore", "KeyStore"}, {"KeyStore", "IntStore"}, {"Store", "UserStore", "Cache"}, {"Embeds", "Base", "Results"}, {"Base", "Sink", "Results"}, {"UserStore:Users", "NamedStore:Named", "Pair"}} {
		for _, cfg := range []Cfg{{Dest: "implicit"}, {Dest: "other", SkipEnsure: true}, {Dest: "other", WithResets: true, Stub: true}} {
			cfg.Args = l
			cases = append(cases, &Case{Origin: "raw:" + strings.Join(l, ","), Src: src, Cfg: cfg, Judge: judge, NoPredict: true, Solo: true, Repeat: 2})
		}
	}
	return cases
}
