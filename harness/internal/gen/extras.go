package gen

import (
	"fmt"
	"os"
	"sort"
	"strings"

	"verif/internal/core"
)

// Library-level parts of the command-line properties: the same production
// entry points main.go calls, on the generator corpora.

func cloneInPlace(cases []*Case, judge string, limit int) []*Case {
	var out []*Case
	for _, c := range cases {
		if c.Cfg.Dest != "implicit" {
			continue
		}
		src := *c.Src // its own directory: the output is installed into it
		if src.Raw == nil && len(src.Ifaces) > 8 {
			// a private copy of a package with hundreds of interfaces per case makes the
			// scratch world quadratic: keep the requested interfaces only
			seen := map[string]bool{}
			var keep []Iface
			for _, it := range requested(c) {
				if !seen[it.Name] {
					seen[it.Name] = true
					keep = append(keep, it)
				}
			}
			src.Ifaces = keep
		}
		nc := &Case{Origin: c.Origin, Src: &src, Cfg: c.Cfg, Judge: []string{judge}, NoPredict: c.NoPredict, Names: nil}
		out = append(out, nc)
		if limit > 0 && len(out) >= limit {
			break
		}
	}
	return out
}

// ExtraC15: moq's own output, left in the source package, is a fixed point.
func ExtraC15(tier string) func(sc *core.Scratch, ev *core.Evidence, rep *core.Reporter) (int, error) {
	return func(sc *core.Scratch, ev *core.Evidence, rep *core.Reporter) (int, error) {
		seed := core.Seed()
		limit := 120
		if tier == "thorough" {
			limit = 800
		}
		var cases []*Case
		cases = append(cases, cloneInPlace(CorpusImports(seed, tier), "C15", limit)...)
		cases = append(cases, cloneInPlace(CorpusTypes(seed, tier), "C15", limit)...)
		cases = append(cases, cloneInPlace(CorpusNames(seed, tier), "C15", limit/2)...)
		cases = append(cases, cloneInPlace(CorpusMulti(seed, tier), "C15", limit/2)...)
		cases = append(cases, cloneInPlace(CorpusRaw(seed, tier), "C15", limit)...)
		// mock aliases that coincide with parameter names: the regenerated package
		// then contains a type of that name
		al := CorpusFixedPointAliases()
		cases = append(cases, al...)
		for _, c := range cases {
			c.Install = "zz_moq_generated.go"
			if len(c.Cfg.Args) > 1 && c.Repeat < 6 {
				c.Repeat = 6 // several interfaces in one run: whatever order they are worked on, the bytes are the same
			}
		}
		// shape of KF-11, defined by the models: feed the aliases the model
		// predicts for the first output back as harvested source aliases; if the
		// model's second run differs from its first, the algorithm as written is
		// not idempotent for this input
		shapeFuncs["fixedpoint:alias-feedback"] = func(c *Case, p *Prediction) bool {
			if p == nil || c.NoPredict || len(p.Finals) != 1 {
				return false
			}
			c2 := *c
			c2.ID = 1
			c2.AliasOverride = map[string]string{}
			names := map[string]string{c.Src.Path: c.Src.Name, "sync": "sync"}
			for _, k := range c.Src.Pkgs {
				names[k.Path] = k.Name
			}
			for _, pq := range p.Finals[0] {
				if len(pq) == 2 && names[pq[0]] != pq[1] {
					c2.AliasOverride[pq[0]] = pq[1]
				}
			}
			ev2 := core.NewEvidence("C15", tier, "model_checking")
			p2, err := Predict(sc, ev2, "C15regen", []*Case{&c2})
			if err != nil || p2[1] == nil {
				return false
			}
			if os.Getenv("VERIF_DEBUG") != "" {
				fmt.Fprintf(os.Stderr, "DEBUG regen-shape %s override=%v\n first=%v %v\n second=%v %v\n", c.Origin, c2.AliasOverride, p.Names, p.Finals, p2[1].Names, p2[1].Finals)
			}
			return canonNames(p2[1].Names) != canonNames(p.Names) || canonFinals(p2[1].Finals) != canonFinals(p.Finals)
		}
		v, _, err := EvaluateCases("C15", "C15lib", cases, sc, ev, rep)
		if err != nil {
			return 2, err
		}
		if v > 0 {
			return 1, nil
		}
		return 0, nil
	}
}

// CorpusFixedPointAliases: interfaces whose parameter names equal the mock
// names requested (after regeneration the package declares those types).
func CorpusFixedPointAliases() []*Case {
	pkgs := []Pkg{dep("alpha", "x", "alpha")}
	it := Iface{Name: "Client", Methods: []Method{
		meth("UseSandbox", ps(par("sandbox", Basic("bool")), par("fake", Basic("bool"))), nil),
		meth("Charge", ps(par("client", Basic("string")), par("amount", Basic("int"))), ps(par("", errT))),
		meth("Other", ps(par("clientMock", Named(0, "T"))), nil),
	}}
	var out []*Case
	for _, args := range [][]string{{"Client:fake"}, {"Client:client"}, {"Client"}, {"Client:sandbox"}, {"Client:amount"}} {
		src := newSrc("fpsrc", pkgs, it)
		out = append(out, &Case{Origin: "fixedpoint:" + args[0], Src: src, Cfg: Cfg{Dest: "implicit", Args: args}, Judge: []string{"C15"}})
	}
	return out
}

// ExtraC17: failures hand nothing to the writer; the writer is used once.
func ExtraC17(tier string) func(sc *core.Scratch, ev *core.Evidence, rep *core.Reporter) (int, error) {
	return func(sc *core.Scratch, ev *core.Evidence, rep *core.Reporter) (int, error) {
		pkgs := []Pkg{dep("alpha", "x", "alpha")}
		ifs := []Iface{
			{Name: "Good", Methods: []Method{meth("Do", ps(par("s", Basic("string"))), ps(par("", errT)))}},
			{Name: "Good2", Methods: []Method{meth("Get", ps(par("t", Named(0, "T"))), ps(par("", Named(0, "U"))))}},
			{Name: "None"},
		}
		src := newSrc("wsrc", pkgs, ifs...)
		src.Extra = "type NotAnIface struct{ V int }\n\nfunc NewThing() int { return 0 }\n\nconst MaxN = 3\n\n"
		var cases []*Case
		argLists := [][]string{{"Good"}, {"Good", "Good2"}, {"Good", "Missing"}, {"Missing", "Good"}, {"Good", "Good2", "NotAnIface"}, {"Good", "NewThing"},
			{"Good:Bad-Name"}, {"Good", "Good2:2nd"}, {"Good:"}, {"None", "Good", "MaxN"}}
		for _, args := range argLists {
			for _, cfg := range []Cfg{{Dest: "implicit"}, {Dest: "other"}, {Dest: "other", Fmt: "noop"}, {Dest: "implicit", Fmt: "goimports", Stub: true}} {
				cfg.Args = args
				cases = append(cases, &Case{Origin: fmt.Sprintf("writer:%v", args), Src: src, Cfg: cfg, Judge: []string{"C17"}, NoPredict: true})
				for _, b := range []int{0, 1, 40, 500} {
					fa := b
					c2 := cfg
					cases = append(cases, &Case{Origin: fmt.Sprintf("writer:%v failAfter=%d", args, b), Src: src, Cfg: c2, Judge: []string{"C17"}, NoPredict: true, FailAfter: &fa})
				}
			}
		}
		v, _, err := EvaluateCases("C17", "C17lib", cases, sc, ev, rep)
		if err != nil {
			return 2, err
		}
		if v > 0 {
			return 1, nil
		}
		return 0, nil
	}
}

// ExtraC19: no crash, no divergence on the adversarial corpora and on every
// kind of argument string.
func ExtraC19(tier string) func(sc *core.Scratch, ev *core.Evidence, rep *core.Reporter) (int, error) {
	return func(sc *core.Scratch, ev *core.Evidence, rep *core.Reporter) (int, error) {
		seed := core.Seed()
		var cases []*Case
		cases = append(cases, CorpusImports(seed, tier)...)
		cases = append(cases, CorpusNames(seed, tier)...)
		cases = append(cases, CorpusGenerics(seed, tier)...)
		cases = append(cases, CorpusRaw(seed, tier)...)
		cases = append(cases, CorpusArgs()...)
		v, _, err := EvaluateCases("C19", "C19lib", cases, sc, ev, rep)
		if err != nil {
			return 2, err
		}
		if v > 0 {
			return 1, nil
		}
		return 0, nil
	}
}

const argsSrc = `package argsrc

import (
	"errors"
	"io"
)

type Store interface {
	Get(k string) (int, error)
}

type Sorter[T interface{ Less(T) bool }] interface {
	Sort(xs []T) []T
}

type Tree[T Ordered[T]] interface {
	Insert(v T) Tree[T]
}

type Ordered[T any] interface {
	Less(o T) bool
}

type Box[T any] struct{ V T }

type S struct{ V int }

type SAlias = S

type IfaceAlias = Store

func NewS() *S { return &S{} }

const MaxN = 3

var ErrClosed = errors.New("closed")

var Reader io.Reader

var DefaultStore Store
`

// CorpusArgs: every kind of argument string against one package.
func CorpusArgs() []*Case {
	src := &SrcPkg{Name: "argsrc", Pkgs: []Pkg{}, Raw: map[string]string{"args.go": argsSrc}}
	lists := [][]string{{""}, {":"}, {"Store:"}, {":Store"}, {"Store:A:B"}, {"Box"}, {"S"}, {"SAlias"}, {"IfaceAlias"}, {"NewS"}, {"MaxN"}, {"ErrClosed"},
		{"Reader"}, {"DefaultStore"}, {"Store", "NewS:Fake"}, {"nosuch"}, {"Store "}, {" Store"}, {"Store", ""}, {"Store", "Store"}, {"Sorter"}, {"Tree"}, {"Ordered"},
		{"Store", "Box", "S"}, {"store"}, {"Store:Store"}, {"Store:type"}, {"Store:1x"}, {"argsrc.Store"}, {"*Store"}, {"Store", "MaxN:Fake"}, {"ErrClosed:E", "Store"}}
	var out []*Case
	for i, l := range lists {
		for _, cfg := range rotate(i, 3) {
			cfg.Args = l
			out = append(out, &Case{Origin: fmt.Sprintf("args:%q", l), Src: src, Cfg: cfg, Judge: []string{"C19"}, NoPredict: true})
		}
	}
	return out
}

// TLC prints sets in no particular order: canonical text for comparison
func canonFinals(f [][][]string) string {
	var regs []string
	for _, r := range f {
		var ps []string
		for _, pq := range r {
			ps = append(ps, strings.Join(pq, "="))
		}
		sort.Strings(ps)
		regs = append(regs, strings.Join(ps, ","))
	}
	sort.Strings(regs)
	return strings.Join(regs, " | ")
}

func canonNames(n [][][]string) string {
	var scopes []string
	for _, alts := range n {
		var as []string
		for _, a := range alts {
			as = append(as, strings.Join(a, ","))
		}
		sort.Strings(as)
		scopes = append(scopes, strings.Join(as, "|"))
	}
	return strings.Join(scopes, " ; ")
}

// ExtraC08: the static half of C08 - which reset methods exist, per flag - on
// the generator corpora (method-less, generic, embedded, aliased interfaces).
func ExtraC08(tier string) func(sc *core.Scratch, ev *core.Evidence, rep *core.Reporter) (int, error) {
	return func(sc *core.Scratch, ev *core.Evidence, rep *core.Reporter) (int, error) {
		seed := core.Seed()
		var cases []*Case
		cases = append(cases, CorpusFlags(seed, tier)...)
		cases = append(cases, CorpusRaw(seed, tier)...)
		cases = append(cases, CorpusGenerics(seed, tier)...)
		v, _, err := EvaluateCases("C08", "C08static", cases, sc, ev, rep)
		if err != nil {
			return 2, err
		}
		if v > 0 {
			return 1, nil
		}
		return 0, nil
	}
}

// ExtraC06: the static half of C06 on the generator corpora (in particular the
// interfaces with unexported methods, which only an in-package caller can use
// and the run-time driver therefore cannot reach).
func ExtraC06(tier string) func(sc *core.Scratch, ev *core.Evidence, rep *core.Reporter) (int, error) {
	return func(sc *core.Scratch, ev *core.Evidence, rep *core.Reporter) (int, error) {
		seed := core.Seed()
		var cases []*Case
		for _, l := range [][]*Case{CorpusFlags(seed, tier), CorpusRaw(seed, tier), CorpusMulti(seed, tier)} {
			for _, c := range l {
				d := *c
				d.Judge, d.RunFmts, d.Solo = []string{"C06"}, false, false
				cases = append(cases, &d)
			}
		}
		v, _, err := EvaluateCases("C06", "C06static", cases, sc, ev, rep)
		if err != nil {
			return 2, err
		}
		if v > 0 {
			return 1, nil
		}
		return 0, nil
	}
}
