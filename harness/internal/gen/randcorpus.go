package gen

import (
	"fmt"
	"math/rand"
)

// CorpusRandom: seeded random interfaces over the whole abstract syntax -
// nested types to depth 3 over five packages (two of them sharing a name),
// named / unnamed / blank parameters from the name universe, named and
// unnamed results, variadic tails, per-file import aliases, one to four
// methods, any flag combination and destination. Inputs for which the models
// predict the shape of a recorded finding are dropped (DropKF), so every
// failure here is new. VERIF_SEED moves the sample.
func CorpusRandom(seed int64, tier string) []*Case { return corpusRandom(seed, tier, "plain") }

// CorpusRandomGeneric: the same generator over generic interfaces - one to
// three type parameters under random constraints (any, method sets, unions,
// named constraints of the source package and of dependencies, comparable
// ahead of a union), used as leaves anywhere in the signatures.
func CorpusRandomGeneric(seed int64, tier string) []*Case {
	return corpusRandom(seed+1000003, tier, "generic")
}

// CorpusRandomMulti: two to four random interfaces of one package requested
// in one run (some under a mock-name alias), each also generated alone.
func CorpusRandomMulti(seed int64, tier string) []*Case {
	return corpusRandom(seed+2000003, tier, "multi")
}

func corpusRandom(seed int64, tier, variant string) []*Case {
	rng := rand.New(rand.NewSource(seed*104729 + 7))
	var curTPs []string // type parameters of the interface being generated
	pkgs := []Pkg{dep("alpha", "x", "alpha"), dep("beta", "x", "beta"), dep("client", "one", "client"), dep("client", "two", "client"), dep("s1", "n", "s1")}
	names := []string{"s", "s1", "n", "x", "v", "id", "key", "ctx", "client", "alpha", "beta", "store", "in", "out", "res", "err", "a", "b", "xOut", "_key", "url", "sync", "data", "opts"}
	var leaf func() T
	leaf = func() T {
		if len(curTPs) > 0 && rng.Intn(3) == 0 {
			return TParam(curTPs[rng.Intn(len(curTPs))])
		}
		switch rng.Intn(12) {
		case 0:
			return Basic("string")
		case 1:
			return Basic("int")
		case 2:
			return Basic([]string{"bool", "float64", "byte", "uint64", "rune"}[rng.Intn(5)])
		case 3:
			return errT
		case 4:
			return AliasT("any")
		case 5:
			return Named(-1, "LocalT")
		case 6:
			return AliasIn(rng.Intn(2), "A")
		default:
			return Named(rng.Intn(len(pkgs)), []string{"T", "U", "T", "I"}[rng.Intn(4)])
		}
	}
	key := func() T {
		switch rng.Intn(4) {
		case 0:
			return Basic("string")
		case 1:
			return Basic("int")
		case 2:
			return Named(rng.Intn(len(pkgs)), "U")
		}
		return Named(rng.Intn(len(pkgs)), "T")
	}
	var typ func(d int) T
	typ = func(d int) T {
		if d <= 0 || rng.Intn(3) == 0 {
			return leaf()
		}
		switch rng.Intn(12) {
		case 0:
			return Ptr(typ(d - 1))
		case 1:
			return Slice(typ(d - 1))
		case 2:
			return Array(typ(d - 1))
		case 3:
			return Map(key(), typ(d-1))
		case 4:
			return Chan([]string{"", "send", "recv"}[rng.Intn(3)], typ(d-1))
		case 5:
			var ps, rs []T
			for i := 0; i < rng.Intn(3); i++ {
				ps = append(ps, typ(d-1))
			}
			for i := 0; i < rng.Intn(3); i++ {
				rs = append(rs, typ(d-1))
			}
			return Func(ps, rs)
		case 6:
			return Struct(typ(d - 1))
		case 7:
			return IfaceT(typ(d - 1))
		case 8:
			return NamedG(rng.Intn(len(pkgs)), "G", typ(d-1))
		case 9:
			return AliasIn(rng.Intn(len(pkgs)), []string{"GA", "Opt"}[rng.Intn(2)], typ(d-1))
		case 10:
			return NamedG(rng.Intn(len(pkgs)), "Pair", typ(d-1), typ(d-1))
		}
		return IfaceEmbed(Named(rng.Intn(len(pkgs)), "I"))
	}
	// one file cannot import both packages called client without an alias
	var fixClient func(t *T, which int)
	fixClient = func(t *T, which int) {
		if (t.K == "named" || t.K == "alias") && (t.P == 2 || t.P == 3) {
			t.P = which
		}
		for i := range t.E {
			fixClient(&t.E[i], which)
		}
		for i := range t.R {
			fixClient(&t.R[i], which)
		}
	}
	n := 150
	if tier == "thorough" {
		n = 1500
	}
	if variant != "plain" {
		n = n * 2 / 5
	}
	var cases []*Case
	var group []Iface
	cfgs := allCfgs()
	tpNames := [][]string{{"T"}, {"K", "V"}, {"A", "B", "C"}, {"t"}, {"Id", "uRL"}, {"kk", "V"}}
	tpCons := []string{"any", "any", "stringer", "union", "method", "pkgnum:0", "pkgnum:4", "pkgiface:1", "ustring", "ufloat", "cmpunion", "unioncmp", "localkey", "markerunion", "pkgkey:1"}
	for i := 0; i < n; i++ {
		it := Iface{Name: fmt.Sprintf("R%04d", i)}
		curTPs = nil
		ifaceWhich := 2 + rng.Intn(2)
		if variant == "generic" {
			curTPs = tpNames[rng.Intn(len(tpNames))]
			for _, tn := range curTPs {
				it.TParams = append(it.TParams, TypeParam{Name: tn, Constraint: tpCons[rng.Intn(len(tpCons))]})
			}
			it.OneFile = true
		}
		nm := 1 + rng.Intn(4)
		for j := 0; j < nm; j++ {
			np := rng.Intn(4)
			unnamed := rng.Intn(3) == 0
			used := map[string]bool{}
			var pl []Param
			for k := 0; k < np; k++ {
				nmx := ""
				if !unnamed {
					nmx = names[rng.Intn(len(names))]
					if rng.Intn(6) == 0 || used[nmx] {
						nmx = "_"
					}
					used[nmx] = true
				}
				pl = append(pl, par(nmx, typ(2+rng.Intn(2))))
			}
			variadic := np > 0 && rng.Intn(5) == 0
			if variadic {
				pl[np-1].T = Slice(pl[np-1].T)
			}
			var rl []Param
			nr := rng.Intn(3)
			namedRes := rng.Intn(3) == 0
			for k := 0; k < nr; k++ {
				rn := ""
				if namedRes {
					rn = []string{"res", "err", "n", "ok", "out"}[k%5]
					if used[rn] {
						rn = fmt.Sprintf("r%d", k)
					}
					used[rn] = true
				}
				rl = append(rl, par(rn, typ(1+rng.Intn(2))))
			}
			which := 2 + rng.Intn(2)
			if it.OneFile {
				which = ifaceWhich // one file: one of the two packages called client only
			}
			for k := range pl {
				fixClient(&pl[k].T, which)
			}
			for k := range rl {
				fixClient(&rl[k].T, which)
			}
			am := map[int]string{}
			if rng.Intn(5) == 0 && !(it.OneFile && j > 0) {
				p := rng.Intn(len(pkgs))
				am[p] = fmt.Sprintf("al%d", p)
			}
			it.Methods = append(it.Methods, Method{Name: fmt.Sprintf("M%d%c", j, 'a'+rune(rng.Intn(4))), Params: pl, Results: rl, Variadic: variadic})
			if pl == nil {
				it.Methods[len(it.Methods)-1].Params = []Param{}
			}
			if rl == nil {
				it.Methods[len(it.Methods)-1].Results = []Param{}
			}
			it.Aliases = append(it.Aliases, am)
		}
		sortMethods(&it)
		cfg := cfgs[rng.Intn(len(cfgs))]
		if cfg.Dest == "explicitSame" {
			cfg.Dest = "implicit" // KF-06 whenever a source type is mentioned
		}
		switch variant {
		case "generic":
			if len(it.Aliases) > 1 {
				it.Aliases = it.Aliases[:1]
			}
			src := newSrc([]string{"rgsrc", "alpha", "knum"}[rng.Intn(3)], pkgs, it)
			cfg.Args = []string{it.Name}
			cases = append(cases, &Case{Origin: fmt.Sprintf("random-generic:seed=%d:#%d", seed, i), Src: src, Cfg: cfg, DropKF: true, Repeat: 2, RunFmts: i%4 == 0,
				Judge: []string{"C01", "C02", "C08", "C09", "C10", "C11", "C16", "C19"}})
			continue
		case "multi":
			group = append(group, it)
			if len(group) < 2+i%3 && i != n-1 {
				continue
			}
			src := newSrc([]string{"rmsrc", "beta", "client"}[rng.Intn(3)], pkgs, group...)
			for gi, g := range group {
				a := g.Name
				if cfg.Dest == "other" && rng.Intn(4) == 0 {
					a += fmt.Sprintf(":Fake%d", gi)
				}
				cfg.Args = append(cfg.Args, a)
			}
			if rng.Intn(2) == 0 { // not in declaration order
				cfg.Args[0], cfg.Args[len(cfg.Args)-1] = cfg.Args[len(cfg.Args)-1], cfg.Args[0]
			}
			group = nil
			cases = append(cases, &Case{Origin: fmt.Sprintf("random-multi:seed=%d:#%d", seed, i), Src: src, Cfg: cfg, DropKF: true, Repeat: 2, Solo: true, RunFmts: i%4 == 0,
				Judge: []string{"C01", "C02", "C08", "C10", "C11", "C14", "C16", "C19", "C20"}})
			continue
		}
		src := newSrc([]string{"rsrc", "alpha", "client"}[rng.Intn(3)], pkgs, it)
		cfg.Args = []string{it.Name}
		cases = append(cases, &Case{Origin: fmt.Sprintf("random:seed=%d:#%d", seed, i), Src: src, Cfg: cfg, DropKF: true, AutoNames: true, Repeat: 2,
			Judge: []string{"C01", "C02", "C10", "C11", "C12", "C13", "C14", "C19"}})
	}
	return cases
}
