package gen

import (
	"fmt"
	"go/ast"
	"go/token"
	"go/types"
	"os"
	"path/filepath"
	"sort"
	"strings"

	"golang.org/x/tools/go/packages"

	"verif/internal/core"
)

const WorldMod = "wmod.test/w"

// World is a scratch module holding dependency and source packages.
type World struct {
	Dir    string
	Deps   map[string]Pkg // by path
	Srcs   []*SrcPkg
	Fset   *token.FileSet
	Loaded map[string]*packages.Package // by import path, dependencies included
}

func NewWorld(dir string) (*World, error) {
	w := &World{Dir: dir, Deps: map[string]Pkg{}}
	if err := core.WriteFile(filepath.Join(dir, "go.mod"), []byte("module "+WorldMod+"\n\ngo 1.24\n")); err != nil {
		return nil, err
	}
	return w, nil
}

// DepPath builds a dependency import path from components.
func DepPath(comps ...string) string { return WorldMod + "/" + strings.Join(comps, "/") }

func (w *World) AddDep(p Pkg) error {
	if old, ok := w.Deps[p.Path]; ok {
		if old.Name != p.Name || old.Extra != p.Extra {
			return fmt.Errorf("dependency %s declared with names %s and %s", p.Path, old.Name, p.Name)
		}
		return nil
	}
	w.Deps[p.Path] = p
	rel := strings.TrimPrefix(p.Path, WorldMod+"/")
	return core.WriteFile(filepath.Join(w.Dir, filepath.FromSlash(rel), "dep.go"), []byte(DepSource(p.Name)+p.Extra))
}

// AddSrc writes a source package under src/<dirname>.
func (w *World) AddSrc(s *SrcPkg, dirname string) error {
	// like real packages, the directory is called like the package
	sub := s.SubDir
	if sub == "" {
		sub = s.Name
	}
	dirname += "/" + sub
	s.Dir = filepath.Join(w.Dir, "src", filepath.FromSlash(dirname))
	s.Path = WorldMod + "/src/" + dirname
	for _, p := range s.Pkgs {
		if strings.HasPrefix(p.Path, WorldMod+"/") {
			if err := w.AddDep(p); err != nil {
				return err
			}
		}
	}
	for name, content := range s.Files() {
		if err := core.WriteFile(filepath.Join(s.Dir, name), []byte(content)); err != nil {
			return err
		}
	}
	w.Srcs = append(w.Srcs, s)
	return nil
}

// Load type-checks the whole module once (with dependencies, std included).
func (w *World) Load() error {
	w.Fset = token.NewFileSet()
	cfg := &packages.Config{
		Mode: packages.NeedName | packages.NeedFiles | packages.NeedSyntax | packages.NeedTypes | packages.NeedImports | packages.NeedDeps | packages.NeedTypesInfo,
		Dir:  w.Dir, Fset: w.Fset, Env: core.GoEnv(),
	}
	pkgs, err := packages.Load(cfg, "./...")
	if err != nil {
		return core.Infra("loading scratch world: %v", err)
	}
	w.Loaded = map[string]*packages.Package{}
	var visit func(p *packages.Package)
	visit = func(p *packages.Package) {
		if _, ok := w.Loaded[p.PkgPath]; ok {
			return
		}
		w.Loaded[p.PkgPath] = p
		for _, ip := range p.Imports {
			visit(ip)
		}
	}
	var bad []string
	for _, p := range pkgs {
		visit(p)
		for _, e := range p.Errors {
			bad = append(bad, p.PkgPath+": "+e.Msg)
		}
	}
	if len(bad) > 0 {
		sort.Strings(bad)
		if len(bad) > 8 {
			bad = bad[:8]
		}
		return core.Infra("scratch world does not type-check (harness bug):\n%s", strings.Join(bad, "\n"))
	}
	return nil
}

// EnsureStd makes sure a few std packages are loaded (sync is imported by
// generated code, not by the sources).
func (w *World) EnsureStd() error {
	// a generic interface whose lower-case type parameters are spelled like the names moq
	// invents for unnamed parameters: the worker generates it between two generations of a
	// request (whatever it leaves behind in the process must not reach the second one)
	if err := core.WriteFile(filepath.Join(w.Dir, "poison", "poison.go"),
		[]byte("package poison\n\ntype Cache[s comparable, v any, n any, b any, f any, err any, t any] interface {\n\tGet(s) (v, n)\n\tPut(b, f, err, t)\n}\n")); err != nil {
		return err
	}
	return core.WriteFile(filepath.Join(w.Dir, "stdanchor", "anchor.go"),
		[]byte("package stdanchor\n\nimport (\n\t_ \"sync\"\n\t_ \"context\"\n\t_ \"fmt\"\n\t_ \"io\"\n\t_ \"net/http\"\n\t_ \"time\"\n)\n\n"+
			"// candidate type arguments for instantiating generic mocks\ntype StrS struct{ V int }\n\nfunc (s *StrS) String() string { return \"s\" }\nfunc (s *StrS) Len() int { return s.V }\nfunc (s StrS) Less(o StrS) bool { return s.V < o.V }\n\ntype StrInt int\n\nfunc (s StrInt) String() string { return \"i\" }\n"))
}

type mapImporter struct{ w *World }

func (m mapImporter) Import(path string) (*types.Package, error) {
	if p, ok := m.w.Loaded[path]; ok && p.Types != nil {
		return p.Types, nil
	}
	return nil, fmt.Errorf("package %q is not part of the scratch world", path)
}

// CheckInPlace type-checks the source package's files together with extra
// files (the generated one) as one package.
func (w *World) CheckInPlace(srcPath string, extra ...*ast.File) (*types.Package, *types.Info, []error) {
	p := w.Loaded[srcPath]
	var files []*ast.File
	if p != nil {
		files = append(files, p.Syntax...)
	}
	files = append(files, extra...)
	return w.check(srcPath, files)
}

// CheckSeparate type-checks files as their own package.
func (w *World) CheckSeparate(path string, files ...*ast.File) (*types.Package, *types.Info, []error) {
	return w.check(path, files)
}

func (w *World) check(path string, files []*ast.File) (*types.Package, *types.Info, []error) {
	var errs []error
	conf := types.Config{Importer: mapImporter{w}, Error: func(err error) { errs = append(errs, err) }}
	info := &types.Info{Defs: map[*ast.Ident]types.Object{}, Uses: map[*ast.Ident]types.Object{}, Types: map[ast.Expr]types.TypeAndValue{},
		Selections: map[*ast.SelectorExpr]*types.Selection{}, Implicits: map[ast.Node]types.Object{}, Scopes: map[ast.Node]*types.Scope{}}
	pkg, _ := conf.Check(path, w.Fset, files, info)
	return pkg, info, errs
}

func (w *World) Cleanup() { os.RemoveAll(w.Dir) }
