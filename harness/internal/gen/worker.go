package gen

import (
	"bufio"
	"bytes"
	"encoding/json"
	"errors"
	"fmt"
	"io"
	"os"
	"os/exec"
	"path/filepath"
	"runtime/debug"
	"strings"
	"sync"
	"time"

	"github.com/matryer/moq/pkg/moq"

	"verif/internal/core"
)

// GenReq asks a worker to run the production library entry points
// (moq.New + Mocker.Mock), exactly what main.go does.
type GenReq struct {
	ID         int      `json:"id"`
	SrcDir     string   `json:"srcDir"`
	Cwd        string   `json:"cwd"`
	PkgName    string   `json:"pkgName"`
	Fmt        string   `json:"fmt"`
	Stub       bool     `json:"stub"`
	SkipEnsure bool     `json:"skipEnsure"`
	WithResets bool     `json:"withResets"`
	Args       []string `json:"args"`
	Repeat     int      `json:"repeat"`    // fresh Mocker instances to run (>=1)
	FailAfter  int      `json:"failAfter"` // <0: plain buffer; else the writer fails once more than this many bytes were offered
	Install    string   `json:"install"`   // regeneration: write the first output under this name into SrcDir, generate again, remove it
}

type GenResp struct {
	ID       int    `json:"id"`
	Out      string `json:"out"`
	Err      string `json:"err"`
	NewErr   bool   `json:"newErr"`   // the error came from moq.New (package load)
	Distinct int    `json:"distinct"` // distinct outputs among the repeats
	Alt      string `json:"alt"`      // an output differing from Out
	Writes   int    `json:"writes"`   // Write calls on the writer (last repeat)
	Written  int    `json:"written"`  // bytes accepted by the writer
	Panic    string `json:"panic"`
	Crash    string `json:"crash"` // set by the pool: worker died / timed out
	Ms       int64  `json:"ms"`
}

type countingWriter struct {
	buf       bytes.Buffer
	writes    int
	failAfter int
}

func (c *countingWriter) Write(p []byte) (int, error) {
	c.writes++
	if c.failAfter >= 0 && c.buf.Len()+len(p) > c.failAfter {
		n := c.failAfter - c.buf.Len()
		if n < 0 {
			n = 0
		}
		c.buf.Write(p[:n])
		return n, errors.New("verif: writer failed")
	}
	return c.buf.Write(p)
}

// WorkerMain is the body of `verif worker`.
func WorkerMain() {
	in := bufio.NewReaderSize(os.Stdin, 1<<20)
	out := bufio.NewWriter(os.Stdout)
	enc := json.NewEncoder(out)
	for {
		line, err := in.ReadBytes('\n')
		if len(line) > 0 {
			var req GenReq
			if e := json.Unmarshal(line, &req); e == nil {
				resp := serve(&req)
				enc.Encode(resp)
				out.Flush()
			}
		}
		if err != nil {
			return
		}
	}
}

func serve(req *GenReq) (resp *GenResp) {
	resp = &GenResp{ID: req.ID}
	t0 := time.Now()
	defer func() {
		if p := recover(); p != nil {
			resp.Panic = fmt.Sprintf("%v\n%s", p, firstLines(string(debug.Stack()), 30))
		}
		resp.Ms = time.Since(t0).Milliseconds()
	}()
	if req.Cwd != "" {
		os.Chdir(req.Cwd)
	}
	n := req.Repeat
	if n < 1 {
		n = 1
	}
	seen := map[string]bool{}
	gen := func() (string, *countingWriter, error, bool) {
		m, err := moq.New(moq.Config{SrcDir: req.SrcDir, PkgName: req.PkgName, Formatter: req.Fmt,
			StubImpl: req.Stub, SkipEnsure: req.SkipEnsure, WithResets: req.WithResets})
		if err != nil {
			return "", nil, err, true
		}
		w := &countingWriter{failAfter: req.FailAfter}
		err = m.Mock(w, req.Args...)
		return w.buf.String(), w, err, false
	}
	// history inside one process: before the second generation, two generations that
	// fail AFTER rendering (a writer that refuses, a mock name go/format rejects).
	// Whatever they leave behind in the library must not reach the next output.
	poison := func() {
		if m, err := moq.New(moq.Config{SrcDir: req.SrcDir, PkgName: req.PkgName, Formatter: req.Fmt,
			StubImpl: req.Stub, SkipEnsure: req.SkipEnsure, WithResets: req.WithResets}); err == nil {
			m.Mock(&countingWriter{failAfter: 0}, req.Args...)
		}
		if m, err := moq.New(moq.Config{SrcDir: req.SrcDir, PkgName: req.PkgName, Formatter: "gofmt",
			StubImpl: req.Stub, SkipEnsure: req.SkipEnsure, WithResets: req.WithResets}); err == nil && len(req.Args) > 0 {
			bad := append([]string{}, req.Args...)
			bad[0] = strings.SplitN(bad[0], ":", 2)[0] + ":Bad-Name"
			m.Mock(&countingWriter{failAfter: -1}, bad...)
		}
		// ... and a generation for an unrelated package of the same module
		other := filepath.Join(filepath.Dir(filepath.Dir(filepath.Dir(req.SrcDir))), "poison")
		if _, err := os.Stat(other); err == nil {
			if m, err := moq.New(moq.Config{SrcDir: other, SkipEnsure: true}); err == nil {
				m.Mock(&countingWriter{failAfter: -1}, "Cache")
			}
		}
	}
	for i := 0; i < n; i++ {
		if i == 1 {
			func() {
				defer func() { recover() }()
				poison()
			}()
		}
		s, w, err, newErr := gen()
		if err != nil && i > 0 {
			// the first generation succeeded: a failure now is either the machine
			// (go list under load) or real nondeterminism - only the second survives a retry
			s, w, err, newErr = gen()
		}
		if i == 0 {
			if w != nil {
				resp.Writes, resp.Written = w.writes, w.buf.Len()
			}
			resp.Out = s
			if err != nil {
				resp.Err, resp.NewErr = err.Error(), newErr
				return
			}
		} else {
			if err != nil {
				s = "ERROR: " + err.Error()
			}
			if s != resp.Out && resp.Alt == "" {
				resp.Alt = s
			}
		}
		seen[s] = true
	}
	resp.Distinct = len(seen)
	if req.Install != "" && resp.Err == "" {
		path := filepath.Join(req.SrcDir, req.Install)
		if err := os.WriteFile(path, []byte(resp.Out), 0o644); err != nil {
			resp.Err = "verif: cannot install output: " + err.Error()
			return
		}
		defer os.Remove(path)
		s2, _, err, _ := gen()
		if err != nil {
			s2, _, err, _ = gen() // see above: retry once
		}
		if err != nil {
			resp.Alt, resp.Distinct = "ERROR: "+err.Error(), 2
			return
		}
		if s2 != resp.Out {
			resp.Alt, resp.Distinct = s2, 2
		}
	}
	return
}

func firstLines(s string, n int) string {
	l := strings.Split(s, "\n")
	if len(l) > n {
		l = l[:n]
	}
	return strings.Join(l, "\n")
}

// ---- pool ---------------------------------------------------------------------

type worker struct {
	cmd    *exec.Cmd
	in     io.WriteCloser
	out    *bufio.Reader
	stderr *bytes.Buffer
}

type Pool struct {
	exe      string
	n        int
	timeout  time.Duration
	retrying bool
}

func NewPool(n int) (*Pool, error) {
	exe, err := os.Executable()
	if err != nil {
		return nil, err
	}
	return &Pool{exe: exe, n: n, timeout: 240 * time.Second}, nil
}

func (p *Pool) start() (*worker, error) {
	cmd := exec.Command(p.exe, "worker")
	cmd.Env = core.GoEnv()
	in, err := cmd.StdinPipe()
	if err != nil {
		return nil, err
	}
	so, err := cmd.StdoutPipe()
	if err != nil {
		return nil, err
	}
	w := &worker{cmd: cmd, in: in, out: bufio.NewReaderSize(so, 1<<20), stderr: &bytes.Buffer{}}
	cmd.Stderr = w.stderr
	if err := cmd.Start(); err != nil {
		return nil, err
	}
	return w, nil
}

func (w *worker) stop() {
	w.in.Close()
	w.cmd.Process.Kill()
	w.cmd.Wait()
}

// Run pushes all requests through the pool; responses are indexed like reqs.
func (p *Pool) Run(reqs []GenReq) ([]GenResp, error) {
	resps := make([]GenResp, len(reqs))
	jobs := make(chan int)
	var wg sync.WaitGroup
	var mu sync.Mutex
	var firstErr error
	for i := 0; i < p.n; i++ {
		wg.Add(1)
		go func() {
			defer wg.Done()
			var w *worker
			defer func() {
				if w != nil {
					w.stop()
				}
			}()
			for idx := range jobs {
				if w == nil {
					var err error
					if w, err = p.start(); err != nil {
						mu.Lock()
						if firstErr == nil {
							firstErr = core.Infra("cannot start worker: %v", err)
						}
						mu.Unlock()
						continue
					}
				}
				req := reqs[idx]
				req.ID = idx
				b, _ := json.Marshal(&req)
				b = append(b, '\n')
				type rd struct {
					line []byte
					err  error
				}
				ch := make(chan rd, 1)
				if _, err := w.in.Write(b); err != nil {
					resps[idx] = GenResp{ID: idx, Crash: "worker not accepting input: " + err.Error() + " " + core.Tail(w.stderr.String(), 15)}
					w.stop()
					w = nil
					continue
				}
				go func(w *worker) {
					l, err := w.out.ReadBytes('\n')
					ch <- rd{l, err}
				}(w)
				select {
				case r := <-ch:
					if r.err != nil || json.Unmarshal(r.line, &resps[idx]) != nil {
						w.cmd.Wait()
						resps[idx] = GenResp{ID: idx, Crash: "worker died: " + core.Tail(w.stderr.String(), 12)}
						w.stop()
						w = nil
					}
				case <-time.After(p.timeout):
					resps[idx] = GenResp{ID: idx, Crash: fmt.Sprintf("timeout: no answer within %s", p.timeout)}
					w.stop()
					w = nil
				}
			}
		}()
	}
	for i := range reqs {
		jobs <- i
	}
	close(jobs)
	wg.Wait()
	if firstErr != nil || p.retrying {
		return resps, firstErr
	}
	// a worker that died or timed out: ask once more (a crash caused by the input
	// is deterministic, one caused by the machine is not)
	var again []int
	for i := range resps {
		if resps[i].Crash != "" {
			again = append(again, i)
		}
	}
	if len(again) > 0 {
		sub := make([]GenReq, len(again))
		for k, i := range again {
			sub[k] = reqs[i]
		}
		p2 := &Pool{exe: p.exe, n: p.n, timeout: 2 * p.timeout, retrying: true} // a loaded machine is slow, a hang stays a hang
		r2, err := p2.Run(sub)
		if err != nil {
			return resps, err
		}
		for k, i := range again {
			r2[k].ID = i
			resps[i] = r2[k]
		}
	}
	return resps, nil
}
