package gen

import (
	"bytes"
	"encoding/json"
	"sort"
	"strconv"
	"strings"
	"time"

	"verif/internal/core"
)

// sanitise mirrors what Package.uniqueName concatenates: path components,
// cleaned by moq's replacer and lower-cased, last component first. This is
// model input (predictions and finding shapes), never a verdict.
var sanRepl = strings.NewReplacer("go-", "", "-go", "", "-", "", "_", "", ".", "", "@", "", "+", "", "~", "")

func sanitise(path string) []string {
	pp := strings.Split(path, "/")
	out := make([]string, len(pp))
	for i := range pp {
		out[i] = strings.ToLower(sanRepl.Replace(pp[len(pp)-1-i]))
	}
	return out
}

type predPkg struct {
	Path  string   `json:"path"`
	Name  string   `json:"name"`
	Alias string   `json:"alias"`
	San   []string `json:"san"`
}

type predCase struct {
	Case    int       `json:"case"`
	MoqPath string    `json:"moqPath"`
	Pkgs    []predPkg `json:"pkgs"`
}

// Prediction is what spec/Registry.tla says about one case.
type Prediction struct {
	Case    int          `json:"case"`
	Diverge bool         `json:"diverge"`
	Dup     bool         `json:"dup"`
	NFinals int          `json:"nfinals"`
	Finals  [][][]string `json:"finals"` // set of registries, each a set of [path, qualifier]
}

// walk lists the packages of a type in the order populateImports meets them.
func walk(t T, out *[]int) {
	switch t.K {
	case "named":
		if t.P >= -1 {
			*out = append(*out, t.P)
		}
		for _, a := range t.E {
			walk(a, out)
		}
	case "ptr", "slice", "array", "chan", "struct", "iface":
		walk(t.E[0], out)
	case "map":
		walk(t.E[0], out)
		walk(t.E[1], out)
	case "func":
		for _, p := range t.E {
			walk(p, out)
		}
		for _, r := range t.R {
			walk(r, out)
		}
	}
}

// importSeq: the packages handed to AddImport, in order, for a case.
func importSeq(c *Case) []predPkg {
	aliases := map[string]string{}
	for _, a := range c.srcAliases() {
		aliases[a.Path] = a.Alias
	}
	var seq []predPkg
	add := func(path, name string) {
		seq = append(seq, predPkg{Path: path, Name: name, Alias: aliases[path], San: sanitise(path)})
	}
	anyMethod := false
	for _, arg := range c.Cfg.Args {
		in, _ := mockNameOf(arg)
		for _, it := range c.Src.Ifaces {
			if it.Name != in {
				continue
			}
			for _, tp := range it.TParams {
				if strings.HasPrefix(tp.Constraint, "pkgnum:") {
					p, _ := strconv.Atoi(strings.TrimPrefix(tp.Constraint, "pkgnum:"))
					add(c.Src.Pkgs[p].Path, c.Src.Pkgs[p].Name)
				}
				if tp.Constraint == "method" {
					add(c.Src.Path, c.Src.Name)
				}
			}
			for _, m := range it.Methods {
				anyMethod = true
				var idx []int
				for _, p := range m.Params {
					walk(p.T, &idx)
				}
				for _, r := range m.Results {
					walk(r.T, &idx)
				}
				for _, p := range idx {
					if p == -1 {
						add(c.Src.Path, c.Src.Name)
					} else {
						add(c.Src.Pkgs[p].Path, c.Src.Pkgs[p].Name)
					}
				}
			}
		}
	}
	if anyMethod {
		add("sync", "sync")
	}
	if c.Cfg.Dest != "implicit" && !c.Cfg.SkipEnsure && c.Cfg.Dest != "explicitSame" {
		add(c.Src.Path, c.Src.Name)
	}
	return seq
}

func moqPathOf(c *Case) string {
	if c.Cfg.Dest == "implicit" {
		return c.Src.Path
	}
	return "" // findPkgPath as written: any explicit -pkg that is not a directory relative to the cwd
}

// Predict runs spec/RegistryPredict.tla over the cases.
func Predict(sc *core.Scratch, ev *core.Evidence, tag string, cases []*Case) (map[int]*Prediction, error) {
	var buf bytes.Buffer
	enc := json.NewEncoder(&buf)
	for _, c := range cases {
		pc := predCase{Case: c.ID, MoqPath: moqPathOf(c), Pkgs: importSeq(c)}
		if pc.Pkgs == nil {
			pc.Pkgs = []predPkg{}
		}
		enc.Encode(&pc)
	}
	cfg := "SPECIFICATION Spec\nCONSTANTS\n  CaseFile = \"cases.ndjson\"\nINVARIANTS Done\n"
	res, err := core.RunTLC(sc, &core.TLCOpts{Module: "RegistryPredict", CfgText: cfg, Workers: 1, Timeout: 30 * time.Minute,
		Files: map[string][]byte{"cases.ndjson": buf.Bytes()}})
	if err != nil {
		return nil, err
	}
	tl := core.PrintedLines(res.Output, "PREDICT-LINES ")
	if res.Violated || len(tl) != 1 || tl[0] != strconv.Itoa(len(cases)) {
		return nil, core.Infra("RegistryPredict did not consume %d cases (%v, %s):\n%s", len(cases), tl, res.ViolatedBy, core.Tail(res.Output, 30))
	}
	ev.AddTLC("RegistryPredict "+tag+" cases="+strconv.Itoa(len(cases)), res)
	out := map[int]*Prediction{}
	for _, l := range core.PrintedLines(res.Output, "PREDICT ") {
		s, err := strconv.Unquote(`"` + l + `"`)
		if err != nil {
			continue
		}
		var p Prediction
		if json.Unmarshal([]byte(s), &p) == nil {
			out[p.Case] = &p
		}
	}
	return out, nil
}

// matchesPrediction: are the observed qualifiers one of the predicted finals?
func matchesPrediction(p *Prediction, o *Obs) bool {
	got := map[string]string{}
	for _, im := range o.Imports {
		got[im.Path] = im.Qual
	}
	for _, f := range p.Finals {
		if len(f) != len(got) {
			continue
		}
		ok := true
		for _, pq := range f {
			if len(pq) != 2 || got[pq[0]] != pq[1] {
				ok = false
				break
			}
		}
		if ok {
			return true
		}
	}
	return false
}

func sortedKeys(m map[string]bool) []string {
	out := make([]string, 0, len(m))
	for k := range m {
		out = append(out, k)
	}
	sort.Strings(out)
	return out
}
