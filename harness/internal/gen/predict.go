package gen

import (
	"bytes"
	"encoding/json"
	"sort"
	"strconv"
	"strings"
	"time"

	"verif/internal/core"
)

// comps: the path's components as characters, last component first. The
// sanitising replacer and lower-casing of uniqueName are part of the model
// (spec/Chars.tla: Strip, SanComp), not of the harness.
func comps(path string) [][]string {
	pp := strings.Split(path, "/")
	out := make([][]string, len(pp))
	for i := range pp {
		out[i] = cs(pp[len(pp)-1-i])
	}
	return out
}

type predPkg struct {
	Path  string     `json:"path"`
	Name  string     `json:"name"`
	Alias string     `json:"alias"`
	Comps [][]string `json:"comps"`
}

type predVar struct {
	NameCs []string `json:"nameCs"`
	T      T        `json:"t"`
	Suffix string   `json:"suffix"`
}

type predCase struct {
	Case      int         `json:"case"`
	MoqPath   string      `json:"moqPath"`
	Scopes    [][]predVar `json:"scopes"`
	Tail      []predPkg   `json:"tail"`
	Src       predPkg     `json:"src"`
	Pkgs      []predPkg   `json:"pkgs"` // the case's package table; types refer to it by index
	scopeOf   []string    // "<iface>.<method>" per scope ("<iface>.[tparams]")
	nParams   []int       // number of parameters (record fields) per scope, -1 for type-parameter scopes
	scopePkgs [][]string  // import paths the scope's variable types mention
}

// Prediction is what the Registry and Scope models say about one case.
type Prediction struct {
	Case        int          `json:"case"`
	Diverge     bool         `json:"diverge"`
	Dup         bool         `json:"dup"`
	Crash       bool         `json:"crash"`
	BadQual     bool         `json:"badQual"` // a path-derived alias that is no usable identifier (keyword, digit first, predeclared)
	NameDup     bool         `json:"nameDup"`
	Late        bool         `json:"late"`
	NFinals     int          `json:"nfinals"`
	Finals      [][][]string `json:"finals"` // set of registries, each a set of [path, qualifier]
	Names       [][][]string `json:"names"`  // per scope: set of possible final name lists
	ScopeOf     []string     `json:"-"`
	NParams     []int        `json:"-"`
	FieldDup    bool         `json:"-"`
	LateCapture bool         `json:"-"` // a variable's final name equals the final qualifier of a package its own method uses
}

// walk lists the packages of a type in the order populateImports meets them.
func walk(t T, out *[]int) {
	switch t.K {
	case "named", "alias":
		if t.P >= -1 {
			*out = append(*out, t.P)
		}
		for _, a := range t.E {
			walk(a, out)
		}
	case "ptr", "slice", "array", "chan", "struct", "iface":
		walk(t.E[0], out)
	case "map":
		walk(t.E[0], out)
		walk(t.E[1], out)
	case "func":
		for _, p := range t.E {
			walk(p, out)
		}
		for _, r := range t.R {
			walk(r, out)
		}
	}
}

// buildPred lays out a case for spec/GenPredict.tla: scopes in the order
// Mocker.Mock creates them, each variable with the packages its type mentions
// in populateImports order.
func buildPred(c *Case) *predCase {
	aliases := map[string]string{}
	for _, a := range c.srcAliases() {
		aliases[a.Path] = a.Alias
	}
	for p, a := range c.AliasOverride {
		aliases[p] = a
	}
	pk := func(i int) predPkg {
		if i == -1 {
			return predPkg{Path: c.Src.Path, Name: c.Src.Name, Alias: aliases[c.Src.Path], Comps: comps(c.Src.Path)}
		}
		p := c.Src.Pkgs[i]
		return predPkg{Path: p.Path, Name: p.Name, Alias: aliases[p.Path], Comps: comps(p.Path)}
	}
	pc := &predCase{Case: c.ID, MoqPath: moqPathOf(c), Scopes: [][]predVar{}, Tail: []predPkg{}, Src: pk(-1), Pkgs: []predPkg{}}
	for i := range c.Src.Pkgs {
		pc.Pkgs = append(pc.Pkgs, pk(i))
	}
	mkVar := func(name string, t T, suffix string) predVar {
		return predVar{NameCs: cs(name), T: t, Suffix: suffix}
	}
	anyMethod := false
	for _, it := range requested(c) {
		for _, m := range it.Methods {
			anyMethod = true
			sc := []predVar{}
			for _, p := range m.Params {
				sc = append(sc, mkVar(p.Name, p.T, ""))
			}
			for _, r := range m.Results {
				sc = append(sc, mkVar(r.Name, r.T, "Out"))
			}
			pc.Scopes = append(pc.Scopes, sc)
			pc.scopeOf = append(pc.scopeOf, it.Name+"."+m.Name)
			pc.nParams = append(pc.nParams, len(m.Params))

		}
		// Mocker.Mock builds the methods first; the type parameter list is
		// evaluated afterwards, when the MockData literal is put together
		if len(it.TParams) > 0 {
			var sc []predVar
			for _, tp := range it.TParams {
				ct := AliasT("constraint") // any: an alias, no default name of its own ("v")
				switch tp.Constraint {
				case "stringer", "union", "mixed", "ustring", "ufloat", "ubytes", "cmpunion", "unioncmp":
					ct = IfaceT(Basic("int")) // an interface literal (also the implicit one around type terms): "ifaceVal"
				case "comparable":
					ct = Named(-2, "comparable")
				}
				switch {
				case strings.HasPrefix(tp.Constraint, "pkgnum:"):
					p, _ := strconv.Atoi(strings.TrimPrefix(tp.Constraint, "pkgnum:"))
					ct = Named(p, "Num")
				case strings.HasPrefix(tp.Constraint, "pkgiface:"):
					p, _ := strconv.Atoi(strings.TrimPrefix(tp.Constraint, "pkgiface:"))
					ct = Named(p, "I")
				case strings.HasPrefix(tp.Constraint, "pkgkey:"):
					p, _ := strconv.Atoi(strings.TrimPrefix(tp.Constraint, "pkgkey:"))
					ct = Named(p, "Key")
				case tp.Constraint == "method":
					ct = Named(-1, "LocalC")
				case tp.Constraint == "localkey":
					ct = Named(-1, "LocalKey")
				case tp.Constraint == "srcunion":
					ct = IfaceEmbed(Named(-1, "LocalQty")) // stands for a constraint that mentions a source-package type
				case tp.Constraint == "srcapprox":
					ct = IfaceEmbed(Named(-1, "LocalT"))
				case strings.HasPrefix(tp.Constraint, "depunion:"):
					p, _ := strconv.Atoi(strings.TrimPrefix(tp.Constraint, "depunion:"))
					ct = IfaceEmbed(Named(p, "U"))
				case tp.Constraint == "markerunion":
					ct = IfaceEmbed(Named(-1, "LocalMarker")) // a literal that embeds a source-package type
				}
				sc = append(sc, mkVar(tp.Name, ct, ""))
			}
			pc.Scopes = append(pc.Scopes, sc)
			pc.scopeOf = append(pc.scopeOf, it.Name+".[tparams]")
			pc.nParams = append(pc.nParams, -1)
		}
	}
	if anyMethod {
		pc.Tail = append(pc.Tail, predPkg{Path: "sync", Name: "sync", Comps: comps("sync")})
	}
	if c.Cfg.Dest != "implicit" && c.Cfg.Dest != "explicitSame" && !c.Cfg.SkipEnsure {
		pc.Tail = append(pc.Tail, pk(-1))
	}
	return pc
}

func moqPathOf(c *Case) string {
	if c.Cfg.Dest == "implicit" {
		return c.Src.Path
	}
	return "" // findPkgPath as written: any explicit -pkg that is not a directory relative to the cwd
}

// Predict runs spec/GenPredict.tla (Registry + Scope models) over the cases.
func Predict(sc *core.Scratch, ev *core.Evidence, tag string, cases []*Case) (map[int]*Prediction, error) {
	var buf bytes.Buffer
	enc := json.NewEncoder(&buf)
	scopeOf := map[int][]string{}
	nParams := map[int][]int{}
	scopePkgs := map[int][][]string{}
	for _, c := range cases {
		pc := buildPred(c)
		scopeOf[c.ID] = pc.scopeOf
		nParams[c.ID] = pc.nParams
		scopePkgs[c.ID] = pc.scopePkgs
		enc.Encode(pc)
	}
	cfg := "SPECIFICATION Spec\nCONSTANTS\n  CaseFile = \"cases.ndjson\"\nINVARIANTS Done\n"
	res, err := core.RunTLC(sc, &core.TLCOpts{Module: "GenPredict", CfgText: cfg, Workers: 1, Timeout: 30 * time.Minute,
		Files: map[string][]byte{"cases.ndjson": buf.Bytes()}, HeapGB: 8})
	if err != nil {
		return nil, err
	}
	tl := core.PrintedLines(res.Output, "PREDICT-LINES ")
	if res.Violated || len(tl) != 1 || tl[0] != strconv.Itoa(len(cases)) {
		return nil, core.Infra("GenPredict did not consume %d cases (%v, %s):\n%s", len(cases), tl, res.ViolatedBy, core.Tail(res.Output, 30))
	}
	ev.AddTLC("GenPredict "+tag+" cases="+strconv.Itoa(len(cases)), res)
	out := map[int]*Prediction{}
	for _, l := range core.PrintedLines(res.Output, "PREDICT ") {
		s, err := strconv.Unquote(`"` + l + `"`)
		if err != nil {
			continue
		}
		var p Prediction
		if json.Unmarshal([]byte(s), &p) == nil {
			p.ScopeOf = scopeOf[p.Case]
			p.NParams = nParams[p.Case]
			p.LateCapture = p.Late
			for si, alts := range p.Names {
				if si >= len(p.NParams) || p.NParams[si] < 0 {
					continue
				}
				for _, names := range alts {
					seen := map[string]bool{}
					for k, n := range names {
						if k >= p.NParams[si] {
							break
						}
						e := exportedMirror(n)
						if seen[e] {
							p.FieldDup = true
						}
						seen[e] = true
					}
				}
			}
			out[p.Case] = &p
		}
	}
	return out, nil
}

// matchesPrediction: are the observed qualifiers one of the predicted finals?
func matchesPrediction(p *Prediction, o *Obs) bool {
	got := map[string]string{}
	for _, im := range o.Imports {
		got[im.Path] = im.Qual
	}
	for _, f := range p.Finals {
		if len(f) != len(got) {
			continue
		}
		ok := true
		for _, pq := range f {
			if len(pq) != 2 || got[pq[0]] != pq[1] {
				ok = false
				break
			}
		}
		if ok {
			return true
		}
	}
	return false
}

func sortedKeys(m map[string]bool) []string {
	out := make([]string, 0, len(m))
	for k := range m {
		out = append(out, k)
	}
	sort.Strings(out)
	return out
}
