// Package cli: the command-line family (C15, C17, C18, C19). Scenarios come
// out of spec/Cli.tla (TLC enumerates them and predicts the outcome); each is
// replayed on the real moq binary in a scratch module under strace, with
// before/after snapshots of the whole tree; TLC judges the observations with
// spec/CliTrace.tla.
package cli

import (
	"bytes"
	"crypto/sha256"
	"encoding/hex"
	"encoding/json"
	"fmt"
	"os"
	"os/exec"
	"path/filepath"
	"regexp"
	"sort"
	"strconv"
	"strings"
	"sync"
	"syscall"
	"time"

	"verif/internal/core"
)

type Scenario struct {
	Prior string `json:"prior"`
	Rm    bool   `json:"rm"`
	Out   string `json:"out"`
	Args  string `json:"args"`
	Fault string `json:"fault"`
	Mod   string `json:"mod"`
	Flag  string `json:"flag"` // none | version | help | bad
	Stub  bool   `json:"stub"` // the command line carries -stub
}

type Pred struct {
	Sc          Scenario `json:"sc"`
	Exit        int      `json:"exit"`
	OutSt       string   `json:"outSt"`
	SrcOnStdout string   `json:"srcOnStdout"`
	Stderr      string   `json:"stderr"`
	Usage       bool     `json:"usage"`
	DirsMade    bool     `json:"dirsMade"`
	Wrote       int      `json:"wrote"`
	Version     bool     `json:"version"`
}

type Obs struct {
	Exit             int      `json:"exit"`
	TimedOut         bool     `json:"timedOut"`
	CrashText        bool     `json:"crashText"`
	StdoutLen        int      `json:"stdoutLen"`
	StdoutHasSource  bool     `json:"stdoutHasSource"`
	StdoutEqualsRef  bool     `json:"stdoutEqualsRef"`
	StderrLen        int      `json:"stderrLen"`
	StderrNamesArg   bool     `json:"stderrNamesArg"`
	StderrHead       string   `json:"stderrHead"`
	OutKind          string   `json:"outKind"` // absent | file | dir
	OutSame          bool     `json:"outSame"` // bytes equal to what was there before
	OutEqualsRef     bool     `json:"outEqualsRef"`
	OutHasSource     bool     `json:"outHasSource"`
	OtherChanged     []string `json:"otherChanged"`
	StraceOK         bool     `json:"straceOK"`
	UnlinkBeforeLoad bool     `json:"unlinkBeforeLoad"`
	TruncOpens       int      `json:"truncOpens"`
	SrcWrites        int      `json:"srcWrites"`
	Attempts         int      `json:"attempts"`      // failed attempts where the model predicts success
	SecondRan        bool     `json:"secondRan"`     // the same command was run once more with its output left in place
	SecondSame       bool     `json:"secondSame"`    // ... and exited 0 with byte-identical -out
	ForeignWrites    []string `json:"foreignWrites"` // modifying system calls on other paths inside the tree
	Events           []string `json:"events"`
	VersionPrinted   bool     `json:"versionPrinted"` // stdout is exactly the version line
	CauseSeen        bool     `json:"causeSeen"`      // the diagnostic mentions what the scenario's module state was built to provoke (guards against vacuity)
}

type Rec struct {
	Case     int      `json:"case"`
	Spelling string   `json:"spelling"`
	Sc       Scenario `json:"sc"`
	Pred     Pred     `json:"pred"`
	Obs      *Obs     `json:"obs"`
	Cmd      []string `json:"cmd"`
}

const ifaceSrc = `package p

import (
	"context"
	"time"
)

// the two interfaces interact through the import table when they are mocked in one run:
// Other has parameters spelled like the packages only Store brings in
type Store interface {
	Get(ctx context.Context, k string) (int, error)
	Put(k string, v int, ttl time.Duration)
}

type Other interface {
	Ping(context string, time int) error
}

type NotIface struct{ V int }
`

// the "older version" of the interface, whose mock no longer satisfies Store
const ifaceSrcOld = `package p

import (
	"context"
	"time"
)

type Store interface {
	Get(ctx context.Context, k string) (string, error)
	Put(k string, v int, ttl time.Duration)
	Del(k string)
}

type Other interface {
	Ping(context string, time int) error
}

type NotIface struct{ V int }
`

func argList(kind string) []string {
	switch kind {
	case "ok":
		return []string{"Store"}
	case "ok2":
		return []string{"Store", "Other:PingerMock"}
	case "okalias":
		return []string{"Store:StoreDouble"}
	case "missing1":
		return []string{"NoSuchThing", "Store"}
	case "missing2":
		return []string{"Store", "NoSuchThing"}
	case "notiface2":
		return []string{"Store", "NotIface"}
	case "badalias":
		return []string{"Store:Bad-Name"}
	case "dup":
		return []string{"Store", "Other:StoreMock"}
	case "one":
		return []string{}
	case "flagslast":
		return []string{"Store", "-stub"}
	}
	return nil
}

// moqEnv: the environment moq and its children run in. GOFLAGS is NOT set
// (-mod=mod would allow the go command to rewrite go.mod, hiding a C18
// defect); the scratch module needs no network and no module downloads.
func moqEnv() []string {
	var env []string
	for _, e := range core.GoEnv() {
		if strings.HasPrefix(e, "GOFLAGS=") || (otherFsTmp != "" && strings.HasPrefix(e, "TMPDIR=")) {
			continue
		}
		env = append(env, e)
	}
	if otherFsTmp != "" {
		env = append(env, "TMPDIR="+otherFsTmp)
	}
	return env
}

// otherFsTmp: a temporary directory on ANOTHER file system than the scratch
// modules (tmpfs /dev/shm), handed to moq as TMPDIR: an implementation that
// stages its output in the system temporary directory and renames it into
// place meets EXDEV here, as it does on machines where /tmp is its own mount.
var otherFsTmp string

func setupOtherFsTmp(base string) func() {
	var a, b syscall.Stat_t
	if syscall.Stat("/dev/shm", &a) != nil || syscall.Stat(base, &b) != nil || a.Dev == b.Dev {
		return func() {}
	}
	d, err := os.MkdirTemp("/dev/shm", "verif-tmp-")
	if err != nil {
		return func() {}
	}
	otherFsTmp = d
	return func() { os.RemoveAll(d); otherFsTmp = "" }
}

type snapEntry struct {
	Kind string
	Size int64
	Sha  string
	Mode os.FileMode
}

func snapshot(root string) map[string]snapEntry {
	m := map[string]snapEntry{}
	filepath.Walk(root, func(p string, info os.FileInfo, err error) error {
		if err != nil {
			return nil
		}
		rel, _ := filepath.Rel(root, p)
		e := snapEntry{Kind: "file", Size: info.Size(), Mode: info.Mode()}
		if info.IsDir() {
			e.Kind, e.Size = "dir", 0
		} else if b, err := os.ReadFile(p); err == nil {
			h := sha256.Sum256(b)
			e.Sha = hex.EncodeToString(h[:])
		}
		m[rel] = e
		return nil
	})
	return m
}

func hasSource(b []byte) bool {
	return bytes.Contains(b, []byte("Code generated by moq")) || regexp.MustCompile(`(?m)^package \w+`).Match(b)
}

type runner struct {
	moq    string
	base   string
	strace bool
	refMu  sync.Mutex
	ref    map[string][]byte
	// preparations (a plain, valid moq command that creates what stands at -out beforehand)
	// that the binary under test failed: the scenario cannot be set up and is skipped
	prepMu         sync.Mutex
	prepFailed     []string
	straceGlitches int // scenarios dropped because strace itself failed three times
}

func (r *runner) prepFailure(what string, err error, out []byte) {
	r.prepMu.Lock()
	defer r.prepMu.Unlock()
	r.prepFailed = append(r.prepFailed, fmt.Sprintf("%s: %v %s", what, err, firstLine(string(out))+" | "+core.Tail(string(out), 3)))
}

// layout creates the scratch module for one run and returns its root.
func (r *runner) layout(dir string, sc Scenario) error {
	gomod, src := "module climod.test/c\n\ngo 1.24\n", ifaceSrc
	if sc.Mod == "stale" {
		// the requirement for example.com/lib is missing: the go command may only
		// complain, never repair (moq must not let it write)
		gomod += "\nreplace example.com/lib => ./lib\n"
		src = strings.Replace(ifaceSrc, "import (\n", "import (\n\t\"example.com/lib\"\n", 1) + "\ntype UsesLib interface{ Do(k lib.Key) }\n"
		core.WriteFile(filepath.Join(dir, "lib", "go.mod"), []byte("module example.com/lib\n\ngo 1.24\n"))
		core.WriteFile(filepath.Join(dir, "lib", "lib.go"), []byte("package lib\n\ntype Key string\n"))
	}
	switch sc.Mod {
	case "nobody":
		core.WriteFile(filepath.Join(dir, "p", "nobody.go"), []byte("package p\n\nfunc implementedElsewhere(n int) int\n"))
	case "typeerr":
		core.WriteFile(filepath.Join(dir, "p", "typeerr.go"), []byte("package p\n\nvar limit int = \"ten\"\n"))
	case "badimport":
		core.WriteFile(filepath.Join(dir, "p", "badimport.go"), []byte("package p\n\nimport _ \"climod.test/c/nosuchpackage\"\n"))
	}
	if err := core.WriteFile(filepath.Join(dir, "go.mod"), []byte(gomod)); err != nil {
		return err
	}
	if err := core.WriteFile(filepath.Join(dir, "p", "iface.go"), []byte(src)); err != nil {
		return err
	}
	// a sibling package and a module-level file that must never change
	core.WriteFile(filepath.Join(dir, "q", "q.go"), []byte("package q\n\nconst Q = 1\n"))
	core.WriteFile(filepath.Join(dir, "README.txt"), []byte("scratch\n"))
	if sc.Out == "otherpkg" {
		// an existing directory with permissions of its own (they are not moq's to change)
		os.MkdirAll(filepath.Join(dir, "mocks"), 0o700)
		os.Chmod(filepath.Join(dir, "mocks"), 0o700)
	}
	return nil
}

func (r *runner) outRel(sc Scenario) string {
	switch sc.Out {
	case "file":
		return filepath.Join("p", "store_mock.go")
	case "newdir":
		return filepath.Join("gen", "deep", "mocks", "store_mock.go")
	case "otherpkg":
		return filepath.Join("mocks", "store_mock.go")
	case "longname":
		return filepath.Join("p", strings.Repeat("x", 240)+"_mock.go")
	}
	return ""
}

func (r *runner) cmdline(sc Scenario, spelling, root string) (args []string, cwd string) {
	out := r.outRel(sc)
	src := "p"
	cwd = root
	switch spelling {
	case "absout":
		if out != "" {
			out = filepath.Join(root, out)
		}
	case "abssrc":
		src = filepath.Join(root, "p")
	case "inpkg":
		cwd = filepath.Join(root, "p")
		src = "."
		if out != "" {
			rel, _ := filepath.Rel(cwd, filepath.Join(root, out))
			out = rel
		}
	case "dotslash":
		src = "./p"
		if out != "" {
			out = "./" + out
		}
	case "symdotdot":
		// p/lnk is a symbolic link to ../q: the kernel resolves p/lnk/.. to the module
		// root, a lexical clean-up of the path resolves it to p
		if out != "" {
			out = filepath.Join("p", "lnk") + "/../" + out
		}
	}
	switch sc.Flag {
	case "version":
		args = append(args, "-version")
	case "help":
		args = append(args, "-h")
	case "bad":
		args = append(args, "-nosuchflag")
	}
	if sc.Stub {
		args = append(args, "-stub")
	}
	if sc.Rm {
		args = append(args, "-rm")
	}
	if out != "" {
		args = append(args, "-out", out)
	}
	if sc.Out == "newdir" || sc.Out == "otherpkg" {
		args = append(args, "-pkg", "mocks")
	}
	if sc.Args != "none" {
		args = append(args, src)
		args = append(args, argList(sc.Args)...)
	}
	return
}

// reference: the complete output for (args, out mode), produced in stdout mode
func (r *runner) reference(sc Scenario) ([]byte, error) {
	key := sc.Args + "|" + sc.Out + "|" + fmt.Sprint(sc.Stub)
	r.refMu.Lock()
	defer r.refMu.Unlock()
	if b, ok := r.ref[key]; ok {
		return b, nil
	}
	dir, err := os.MkdirTemp(r.base, "ref-")
	if err != nil {
		return nil, err
	}
	defer os.RemoveAll(dir)
	if err := r.layout(dir, sc); err != nil {
		return nil, err
	}
	a := []string{}
	if sc.Stub {
		a = append(a, "-stub")
	}
	if sc.Out == "newdir" || sc.Out == "otherpkg" {
		a = append(a, "-pkg", "mocks")
	}
	a = append(a, "p")
	a = append(a, argList(sc.Args)...)
	var so, se bytes.Buffer
	var err2 error
	for i := 0; i < 3; i++ {
		so.Reset()
		se.Reset()
		cmd := exec.Command(r.moq, a...)
		cmd.Dir = dir
		cmd.Env = moqEnv()
		cmd.Stdout, cmd.Stderr = &so, &se
		if err2 = cmd.Run(); err2 == nil {
			break
		}
	}
	if err2 != nil {
		return nil, fmt.Errorf("reference run failed: %v %s", err2, se.String())
	}
	r.ref[key] = append([]byte(nil), so.Bytes()...)
	return r.ref[key], nil
}

var reLine = regexp.MustCompile(`^(\d+\.\d+) (\w+)\((.*)\) = (-?\d+|\?)(.*)$`)

type sysEvent struct {
	ts   float64
	pid  string
	sys  string
	args string
	ret  string
	rest string
}

func parseStrace(prefix string) []sysEvent {
	files, _ := filepath.Glob(prefix + ".*")
	var evs []sysEvent
	for _, f := range files {
		pid := f[strings.LastIndex(f, ".")+1:]
		b, _ := os.ReadFile(f)
		for _, ln := range strings.Split(string(b), "\n") {
			m := reLine.FindStringSubmatch(ln)
			if m == nil {
				continue
			}
			ts, _ := strconv.ParseFloat(m[1], 64)
			evs = append(evs, sysEvent{ts, pid, m[2], m[3], m[4], m[5]})
		}
	}
	sort.SliceStable(evs, func(i, j int) bool { return evs[i].ts < evs[j].ts })
	return evs
}

// run performs one scenario; when the model predicts success and the run
// fails, it is repeated (a defect is deterministic, a machine under load is
// not): the first successful attempt counts, else the last failing one.
func (r *runner) run(id int, pred Pred, spelling string) (*Rec, error) {
	var rec *Rec
	var err error
	for attempt := 0; attempt < 3; attempt++ {
		rec, err = r.runOnce(id+attempt*100000, pred, spelling)
		if err != nil || rec == nil {
			return rec, err
		}
		rec.Case = id
		if strings.HasPrefix(rec.Obs.StderrHead, "strace:") {
			// the tracer itself failed (ptrace hiccup on a loaded machine): not a run of moq
			rec = nil
			continue
		}
		if !(pred.Exit == 0 && rec.Obs.Exit != 0) {
			break
		}
		rec.Obs.Attempts = attempt + 1
	}
	if rec == nil {
		r.prepMu.Lock()
		r.straceGlitches++
		r.prepMu.Unlock()
	}
	return rec, nil
}

func (r *runner) runOnce(id int, pred Pred, spelling string) (*Rec, error) {
	sc := pred.Sc
	dir, err := os.MkdirTemp(r.base, fmt.Sprintf("run%04d-", id))
	if err != nil {
		return nil, err
	}
	defer os.RemoveAll(dir)
	root, _ := filepath.EvalSymlinks(dir)
	if err := r.layout(root, sc); err != nil {
		return nil, err
	}
	outAbs := ""
	if rel := r.outRel(sc); rel != "" {
		outAbs = filepath.Join(root, rel)
	}
	if spelling == "symdotdot" {
		os.Symlink("../q", filepath.Join(root, "p", "lnk"))
	}
	// what is at the -out path beforehand
	switch sc.Prior {
	case "empty":
		core.WriteFile(outAbs, []byte{})
	case "owncase":
		a, cwd := r.cmdline(Scenario{Out: sc.Out, Args: "none"}, "", root)
		a = append(a, "p", "Store:storeDouble")
		if o, err := prep(r.moq, a, cwd); err != nil {
			r.prepFailure("preparing prior=owncase ("+strings.Join(a, " ")+")", err, o)
			return nil, nil
		}
	case "own", "ownnoop", "ownlong", "ownstub":
		a, cwd := r.cmdline(Scenario{Out: sc.Out, Args: firstOK(sc.Args)}, "", root)
		if sc.Prior == "ownstub" {
			a = append([]string{"-stub"}, a...)
		}
		if sc.Prior == "ownnoop" {
			a = append([]string{"-fmt", "noop"}, a...)
		}
		if sc.Prior == "ownlong" {
			a = append([]string{"-with-resets"}, a...)
		}
		if o, err := prep(r.moq, a, cwd); err != nil {
			r.prepFailure("preparing prior=own ("+strings.Join(a, " ")+")", err, o)
			return nil, nil
		}
	case "older":
		os.WriteFile(filepath.Join(root, "p", "iface.go"), []byte(ifaceSrcOld), 0o644)
		a, cwd := r.cmdline(Scenario{Out: sc.Out, Args: "ok"}, "", root)
		if o, err := prep(r.moq, a, cwd); err != nil {
			r.prepFailure("preparing prior=older ("+strings.Join(a, " ")+")", err, o)
			return nil, nil
		}
		os.WriteFile(filepath.Join(root, "p", "iface.go"), []byte(ifaceSrc), 0o644)
	case "garbage":
		core.WriteFile(outAbs, []byte("\x00\x01 this is {{{ not Go at all\npackage ???\n"))
	case "dir":
		core.WriteFile(filepath.Join(outAbs, "keep.txt"), []byte("x\n"))
	case "parentfile":
		core.WriteFile(filepath.Join(root, "gen"), []byte("a file where a directory is needed\n"))
	case "danglink":
		core.WriteFile(filepath.Join(root, "legacy", "README"), []byte("the link's target is not here\n"))
		os.Symlink(filepath.Join("..", "legacy", "store_mock.go"), outAbs)
	}
	var priorBytes []byte
	if outAbs != "" {
		priorBytes, _ = os.ReadFile(outAbs)
	}
	before := snapshot(root)
	args, cwd := r.cmdline(sc, spelling, root)
	tracePrefix := filepath.Join(r.base, fmt.Sprintf("strace-%04d", id))
	var cmd *exec.Cmd
	useStrace := r.strace
	if useStrace {
		sargs := []string{"-ff", "-ttt", "-y", "-qq", "-s", "64", "-o", tracePrefix,
			"-e", "trace=execve,unlink,unlinkat,mkdir,mkdirat,rmdir,rename,renameat,renameat2,openat,open,creat,write,truncate,ftruncate,link,linkat,symlink,symlinkat,chmod,fchmodat"}
		if sc.Fault == "write" {
			sargs = append(sargs, "-e", "inject=write:error=ENOSPC", "-P", outAbs)
		}
		sargs = append(sargs, r.moq)
		cmd = exec.Command("strace", append(sargs, args...)...)
	} else {
		if sc.Fault == "write" {
			return nil, nil // cannot be provoked without ptrace
		}
		cmd = exec.Command(r.moq, args...)
	}
	cmd.Dir, cmd.Env = cwd, moqEnv()
	var so, se bytes.Buffer
	cmd.Stderr = &se
	if sc.Fault == "stdoutfull" {
		f, err := os.OpenFile("/dev/full", os.O_WRONLY, 0)
		if err != nil {
			return nil, core.Infra("/dev/full: %v", err)
		}
		defer f.Close()
		cmd.Stdout = f
	} else {
		cmd.Stdout = &so
	}
	o := &Obs{OtherChanged: []string{}, ForeignWrites: []string{}, Events: []string{}, StraceOK: useStrace}
	done := make(chan error, 1)
	if err := cmd.Start(); err != nil {
		return nil, core.Infra("cannot start moq: %v", err)
	}
	go func() { done <- cmd.Wait() }()
	select {
	case err := <-done:
		if ee, ok := err.(*exec.ExitError); ok {
			o.Exit = ee.ExitCode()
		} else if err != nil {
			return nil, core.Infra("running moq: %v", err)
		}
	case <-time.After(180 * time.Second):
		cmd.Process.Kill()
		<-done
		o.TimedOut, o.Exit = true, -1
	}
	o.StdoutLen, o.StdoutHasSource = so.Len(), hasSource(so.Bytes())
	o.StderrLen = se.Len()
	o.StderrHead = firstLine(se.String())
	st := se.String()
	o.CrashText = strings.Contains(st, "panic:") || strings.Contains(st, "fatal error:") || strings.Contains(st, "goroutine 1 [")
	for _, a := range argList(sc.Args) {
		if strings.HasPrefix(a, "NoSuch") || a == "NotIface" || a == "-stub" {
			o.StderrNamesArg = strings.Contains(st, a)
		}
	}
	if sc.Args == "dup" {
		o.StderrNamesArg = strings.Contains(st, "StoreMock")
	}
	if sc.Flag == "bad" {
		o.StderrNamesArg = strings.Contains(st, "nosuchflag")
	}
	o.CauseSeen = true
	if marker := map[string]string{"stale": "example.com/lib", "nobody": "missing function body", "badimport": "nosuchpackage", "typeerr": "cannot use"}[sc.Mod]; marker != "" {
		o.CauseSeen = strings.Contains(st, marker)
	}
	o.VersionPrinted = strings.HasPrefix(so.String(), "moq version ") && strings.Count(so.String(), "\n") == 1
	ref, err := r.reference(Scenario{Out: sc.Out, Args: firstOK(sc.Args), Stub: sc.Stub})
	if err != nil {
		return nil, core.Infra("%v", err)
	}
	o.StdoutEqualsRef = bytes.Equal(so.Bytes(), ref)
	o.OutKind = "absent"
	if outAbs != "" {
		if fi, err := os.Lstat(outAbs); err == nil {
			if fi.IsDir() {
				o.OutKind = "dir"
			} else {
				o.OutKind = "file"
				b, _ := os.ReadFile(outAbs)
				o.OutSame = priorBytes != nil && bytes.Equal(b, priorBytes)
				o.OutEqualsRef = bytes.Equal(b, ref)
				o.OutHasSource = hasSource(b)
			}
		}
	}
	after := snapshot(root)
	// C15: the file moq just wrote is left in place and the same command runs again
	if o.Exit == 0 && sc.Out == "file" && sc.Fault == "none" {
		first, _ := os.ReadFile(outAbs)
		c2 := exec.Command(r.moq, args...)
		c2.Dir, c2.Env = cwd, moqEnv()
		err2 := c2.Run()
		if err2 != nil {
			c3 := exec.Command(r.moq, args...)
			c3.Dir, c3.Env = cwd, moqEnv()
			err2 = c3.Run()
		}
		second, _ := os.ReadFile(outAbs)
		o.SecondRan = true
		o.SecondSame = err2 == nil && bytes.Equal(first, second)
		after = snapshot(root)
	}
	allowed := map[string]bool{}
	if rel := r.outRel(sc); rel != "" {
		for d := rel; d != "." && d != "/" && d != ""; d = filepath.Dir(d) {
			allowed[d] = true
		}
	}
	for p, b := range before {
		a, ok := after[p]
		if allowed[p] {
			// the output path and the directories above it may be created or rewritten,
			// but a directory that was there before is still there afterwards
			if b.Kind == "dir" && (!ok || a.Kind != "dir") && !(sc.Prior == "dir" && p == r.outRel(sc)) {
				o.OtherChanged = append(o.OtherChanged, "directory removed: "+p)
			} else if b.Kind == "dir" && ok && a.Mode != b.Mode {
				o.OtherChanged = append(o.OtherChanged, fmt.Sprintf("mode of existing directory changed: %s %v -> %v", p, b.Mode, a.Mode))
			}
			continue
		}
		if !ok {
			o.OtherChanged = append(o.OtherChanged, "deleted: "+p)
		} else if a.Kind != b.Kind || a.Sha != b.Sha || a.Mode != b.Mode {
			o.OtherChanged = append(o.OtherChanged, "changed: "+p)
		}
	}
	for p := range after {
		if _, ok := before[p]; !ok && !allowed[p] {
			o.OtherChanged = append(o.OtherChanged, "created: "+p)
		}
	}
	sort.Strings(o.OtherChanged)
	if useStrace {
		evs := parseStrace(tracePrefix)
		if len(evs) == 0 {
			o.StraceOK = false
		}
		firstGo := -1.0
		unlinkAt := -1.0
		for _, e := range evs {
			inTree := false
			for _, t := range targetPaths(e.args, cwd) {
				if strings.HasPrefix(t, root+"/") {
					inTree = true
				}
			}
			switch e.sys {
			case "execve":
				if strings.Contains(e.args, `"list"`) && firstGo < 0 && e.ret == "0" {
					firstGo = e.ts
				}
			case "unlink", "unlinkat":
				if outAbs != "" && mentionsPath(e.args, outAbs, root, cwd) {
					unlinkAt = e.ts
					o.Events = append(o.Events, "unlink "+e.ret+e.rest)
				} else if inTree && e.ret == "0" {
					for _, t := range targetPaths(e.args, cwd) {
						if strings.HasPrefix(t, root+"/") {
							rel, _ := filepath.Rel(root, t)
							o.ForeignWrites = append(o.ForeignWrites, e.sys+" "+rel)
						}
					}
				}
			case "openat", "open", "creat":
				wr := strings.Contains(e.args, "O_WRONLY") || strings.Contains(e.args, "O_RDWR") || strings.Contains(e.args, "O_CREAT") || e.sys == "creat"
				if !wr || e.ret == "-1" {
					break
				}
				target := strings.TrimSuffix(strings.TrimPrefix(e.rest, "<"), ">")
				if outAbs != "" && target == outAbs {
					if strings.Contains(e.args, "O_TRUNC") {
						o.TruncOpens++
					}
					o.Events = append(o.Events, "open "+flagsOf(e.args))
				} else if strings.HasPrefix(target, root+"/") {
					rel, _ := filepath.Rel(root, target)
					o.ForeignWrites = append(o.ForeignWrites, e.sys+" "+rel+" "+flagsOf(e.args))
				}
			case "write":
				if strings.Contains(e.args, "Code generated by moq") {
					o.SrcWrites++
					o.Events = append(o.Events, "write-source ret="+e.ret)
				}
			case "mkdir", "mkdirat", "rmdir", "rename", "renameat", "renameat2", "truncate", "link", "linkat", "symlink", "symlinkat", "chmod", "fchmodat":
				if e.ret != "0" {
					break
				}
				for _, t := range targetPaths(e.args, cwd) {
					if !strings.HasPrefix(t, root+"/") && t != root {
						continue
					}
					rel, _ := filepath.Rel(root, t)
					if !allowed[rel] {
						o.ForeignWrites = append(o.ForeignWrites, e.sys+" "+rel)
					}
				}
			}
		}
		// transient files (created and gone again, e.g. a temporary renamed onto
		// -out) are not modifications of the tree; leftovers show in the snapshot
		var lasting []string
		for _, fw := range o.ForeignWrites {
			gone := false
			f := strings.Fields(fw)
			if len(f) >= 2 {
				rel := f[1]
				if filepath.IsAbs(rel) {
					rel, _ = filepath.Rel(root, rel)
				}
				if _, still := after[rel]; !still {
					if _, was := before[rel]; !was {
						gone = true
					}
				}
			}
			if !gone {
				lasting = append(lasting, fw)
			}
		}
		o.ForeignWrites = lasting
		if o.ForeignWrites == nil {
			o.ForeignWrites = []string{}
		}
		o.UnlinkBeforeLoad = unlinkAt >= 0 && (firstGo < 0 || unlinkAt < firstGo)
		for _, f := range mustGlob(tracePrefix + ".*") {
			os.Remove(f)
		}
	}
	return &Rec{Case: id, Spelling: spelling, Sc: sc, Pred: pred, Obs: o, Cmd: append([]string{"moq"}, args...)}, nil
}

// prep runs an unobserved moq command that sets a scenario up (three attempts:
// the go command may fail transiently on a loaded machine).
func prep(moq string, args []string, cwd string) ([]byte, error) {
	var o []byte
	var err error
	for i := 0; i < 3; i++ {
		cmd := exec.Command(moq, args...)
		cmd.Dir, cmd.Env = cwd, moqEnv()
		if o, err = cmd.CombinedOutput(); err == nil {
			return o, nil
		}
	}
	return o, err
}

func mustGlob(p string) []string { l, _ := filepath.Glob(p); return l }

func flagsOf(args string) string {
	i := strings.LastIndex(args, ", O_")
	if i < 0 {
		return ""
	}
	return strings.TrimSpace(args[i+2:])
}

// mentionsPath: does a syscall's argument text name this path (absolute, or
// relative to the directory the descriptor annotation shows)?
// kresolve resolves a path the way the kernel does (symbolic links first, then
// ".."), not lexically: the directory part through EvalSymlinks on the tree as
// it still stands, the last element kept as written.
func kresolve(p string) string {
	i := strings.LastIndex(p, "/")
	if i <= 0 {
		return filepath.Clean(p)
	}
	dir, base := p[:i], p[i+1:]
	if rd, err := filepath.EvalSymlinks(dir); err == nil {
		if base == "" || base == "." {
			return rd
		}
		if base == ".." {
			return filepath.Dir(rd)
		}
		return filepath.Join(rd, base)
	}
	return filepath.Clean(p)
}

func mentionsPath(args, abs, root, cwd string) bool {
	if strings.Contains(args, `"`+abs+`"`) {
		return true
	}
	re := regexp.MustCompile(`AT_FDCWD<([^>]*)>, "([^"]*)"`)
	for _, m := range re.FindAllStringSubmatch(args, -1) {
		p := m[2]
		if !filepath.IsAbs(p) {
			p = m[1] + "/" + p
		}
		if kresolve(p) == abs {
			return true
		}
	}
	return false
}

func firstOK(kind string) string {
	if kind == "ok2" || kind == "okalias" {
		return kind
	}
	return "ok"
}

func firstLine(s string) string {
	if i := strings.IndexByte(s, '\n'); i >= 0 {
		s = s[:i]
	}
	if len(s) > 200 {
		s = s[:200]
	}
	return s
}

// scenarios asks TLC for all scenarios of spec/Cli.tla with their predicted outcome.
func scenarios(sc *core.Scratch, ev *core.Evidence, trunc bool) ([]Pred, error) {
	cfg := fmt.Sprintf(`SPECIFICATION FairSpec
CONSTANTS
  EmitJson = TRUE
  AllowTruncFault = %s
INVARIANTS %s SuccessComplete OnlyOutTouched ExitsCleanly RmMakesPriorIrrelevant Emit
PROPERTIES Terminates
`, map[bool]string{true: "TRUE", false: "FALSE"}[trunc], map[bool]string{true: "", false: "AllOrNothing"}[trunc])
	res, err := core.RunTLC(sc, &core.TLCOpts{Module: "Cli", CfgText: cfg, Workers: 1, Timeout: 10 * time.Minute, Deadlock: true})
	if err != nil {
		return nil, err
	}
	if res.Violated {
		return nil, core.Infra("spec/Cli.tla violates its own requirements in the safe configuration: %s\n%s", res.ViolatedBy, core.Tail(res.Output, 30))
	}
	ev.AddTLC(fmt.Sprintf("Cli scenarios truncFault=%v", trunc), res)
	var out []Pred
	for _, l := range core.PrintedLines(res.Output, "CLI ") {
		s, err := strconv.Unquote(`"` + l + `"`)
		if err != nil {
			return nil, core.Infra("Cli line: %v", err)
		}
		var p Pred
		if err := json.Unmarshal([]byte(s), &p); err != nil {
			return nil, core.Infra("Cli json: %v", err)
		}
		out = append(out, p)
	}
	sort.Slice(out, func(i, j int) bool { return fmt.Sprint(out[i].Sc) < fmt.Sprint(out[j].Sc) })
	return out, nil
}

func straceWorks(moq string) bool {
	cmd := exec.Command("strace", "-qq", "-e", "trace=exit_group", "-o", "/dev/null", moq, "-version")
	return cmd.Run() == nil
}

// RunCLI is the check behind C15, C17, C18 and C19.
func RunCLI(prop, tier string, extra func(sc *core.Scratch, ev *core.Evidence, rep *core.Reporter) (int, error)) (int, error) {
	ev := core.NewEvidence(prop, tier, "model_checking")
	rep := core.NewReporter(prop)
	sc, err := core.NewScratch("cli-" + prop)
	if err != nil {
		return 2, err
	}
	defer sc.Cleanup()
	code, err := runCLI(prop, tier, sc, ev, rep)
	if err == nil && code != 2 && extra != nil {
		c2, e2 := extra(sc, ev, rep)
		if e2 != nil {
			err = e2
			code = 2
		} else if c2 > code {
			code = c2
		}
	}
	ev.Violations = rep.Count()
	if werr := ev.Write(); werr != nil && err == nil {
		err = werr
	}
	return code, err
}

// Subset returns a hook that runs only the scenarios the filter accepts, for
// a property whose main check lives elsewhere (C16: prior file in noop layout).
func Subset(prop, tier string, filter func(Scenario) bool) func(sc *core.Scratch, ev *core.Evidence, rep *core.Reporter) (int, error) {
	return func(sc *core.Scratch, ev *core.Evidence, rep *core.Reporter) (int, error) {
		return runCLIFiltered(prop, tier, sc, ev, rep, filter)
	}
}

func runCLI(prop, tier string, sc *core.Scratch, ev *core.Evidence, rep *core.Reporter) (int, error) {
	return runCLIFiltered(prop, tier, sc, ev, rep, nil)
}

func runCLIFiltered(prop, tier string, sc *core.Scratch, ev *core.Evidence, rep *core.Reporter, filter func(Scenario) bool) (int, error) {
	moq := sc.Path("moq")
	if err := core.BuildMoq(moq); err != nil {
		return 2, err
	}
	preds, err := scenarios(sc, ev, true)
	if err != nil {
		return 2, err
	}
	if _, err := scenarios(sc, ev, false); err != nil { // the safe configuration must satisfy AllOrNothing
		return 2, err
	}
	r := &runner{moq: moq, base: sc.Path("cli"), strace: straceWorks(moq), ref: map[string][]byte{}}
	os.MkdirAll(r.base, 0o755)
	defer setupOtherFsTmp(r.base)()
	ev.Set("tmpdir_on_other_filesystem", otherFsTmp != "")
	if !r.strace {
		ev.Assume("ptrace unavailable: system-call level sub-claims (written once, unlink before load, foreign writes) not observed in this run")
	}
	type job struct {
		id       int
		pred     Pred
		spelling string
	}
	var jobs []job
	id := 0
	for _, p := range preds {
		if filter != nil && !filter(p.Sc) {
			continue
		}
		spellings := []string{""}
		if p.Sc.Out != "stdout" && (p.Sc.Rm || tier == "thorough") && p.Sc.Args != "none" {
			spellings = []string{"", "absout", "inpkg", "abssrc", "dotslash", "symdotdot"}
		}
		for _, sp := range spellings {
			id++
			jobs = append(jobs, job{id, p, sp})
		}
	}
	recs := make([]*Rec, len(jobs))
	var wg sync.WaitGroup
	var mu sync.Mutex
	var firstErr error
	sem := make(chan struct{}, 12)
	for i, j := range jobs {
		wg.Add(1)
		go func(i int, j job) {
			defer wg.Done()
			sem <- struct{}{}
			defer func() { <-sem }()
			rec, err := r.run(j.id, j.pred, j.spelling)
			mu.Lock()
			defer mu.Unlock()
			if err != nil && firstErr == nil {
				firstErr = err
			}
			recs[i] = rec
		}(i, j)
	}
	wg.Wait()
	if firstErr != nil {
		return 2, firstErr
	}
	// scenarios that could not be set up because the binary under test failed a plain, valid
	// command: reported (a crash there is a real run that ended in a Go panic: C19), never
	// silently dropped and never mistaken for a failure of the machinery
	prepViolations := 0
	if r.straceGlitches > 0 {
		ev.Set("scenarios_dropped_strace_failed", r.straceGlitches)
	}
	if len(r.prepFailed) > 0 {
		sort.Strings(r.prepFailed)
		ev.Set("scenarios_not_set_up", len(r.prepFailed))
		crash := ""
		for _, f := range r.prepFailed {
			if strings.Contains(f, "panic:") || strings.Contains(f, "fatal error:") || strings.Contains(f, "goroutine 1 [") {
				crash = f
				break
			}
		}
		if crash != "" && prop == "C19" {
			rep.Violation(prop, map[string]any{"kind": "a valid moq command (used to prepare the state of -out) ended in a Go run-time crash", "detail": crash,
				"how": "real moq binary in a scratch module"})
			prepViolations++
		}
		rep.DriftNote(fmt.Sprintf("%d scenarios were not run: the binary under test failed the valid command that prepares the prior state of -out (e.g. %s)", len(r.prepFailed), r.prepFailed[0]))
	}
	var buf bytes.Buffer
	enc := json.NewEncoder(&buf)
	n := 0
	byID := map[int]*Rec{}
	for _, rec := range recs {
		if rec == nil {
			continue
		}
		enc.Encode(rec)
		byID[rec.Case] = rec
		n++
		ev.Add("evaluations", 1)
		ev.Distinct(fmt.Sprint(rec.Sc) + rec.Spelling)
		if n%40 == 1 {
			ev.Sample(map[string]any{"cmd": rec.Cmd, "scenario": rec.Sc, "exit": rec.Obs.Exit, "stderr": rec.Obs.StderrHead, "out_after": rec.Obs.OutKind, "events": rec.Obs.Events})
		}
	}
	cfg := "SPECIFICATION Spec\nCONSTANTS\n  TraceFile = \"cli.ndjson\"\nINVARIANTS Done\n"
	res, err := core.RunTLC(sc, &core.TLCOpts{Module: "CliTrace", CfgText: cfg, Workers: 1, Timeout: 10 * time.Minute,
		Files: map[string][]byte{"cli.ndjson": buf.Bytes()}})
	if err != nil {
		return 2, err
	}
	tl := core.PrintedLines(res.Output, "CLI-LINES ")
	if res.Violated || len(tl) != 1 || tl[0] != strconv.Itoa(n) {
		return 2, core.Infra("CliTrace did not consume %d records: %v %s\n%s", n, tl, res.ViolatedBy, core.Tail(res.Output, 30))
	}
	ev.AddTLC("CliTrace records="+strconv.Itoa(n), res)
	ev.Add("traces_validated_against_impl", int64(n))
	ev.Set("strace", r.strace)
	kf, err := core.LoadFindings()
	if err != nil {
		return 2, err
	}
	violations := prepViolations
	known := map[string]int{}
	for _, f := range core.PrintedLines(res.Output, "CLI-FAIL ") {
		s, err := strconv.Unquote(`"` + f + `"`)
		if err != nil {
			continue
		}
		var tup []any
		if json.Unmarshal([]byte(s), &tup) != nil || len(tup) != 2 {
			continue
		}
		rec := byID[int(tup[0].(float64))]
		p := fmt.Sprint(tup[1])
		if p == "drift" {
			rep.DriftNote(fmt.Sprintf("spec/Cli.tla predicts exit=%d out=%s for %v (%s); observed exit=%d out=%s stderr=%q", rec.Pred.Exit, rec.Pred.OutSt, rec.Sc, rec.Spelling, rec.Obs.Exit, rec.Obs.OutKind, rec.Obs.StderrHead))
			continue
		}
		if p != prop {
			ev.Note("failures_attributed_to_other_properties", p)
			continue
		}
		if id := cliFinding(kf, prop, rec); id != "" {
			known[id]++
			continue
		}
		rep.Violation(prop, map[string]any{"kind": "CLI run fails " + prop, "record": rec, "how": "real moq binary in a scratch module under strace, judged by spec/CliTrace.tla"})
		violations++
	}
	for _, f := range kf.Findings {
		if known[f.ID] > 0 && f.Status == "open" {
			rep.Known(f, fmt.Sprintf("%s (%d runs)", f.What, known[f.ID]))
		}
	}
	ev.Set("known_finding_runs", known)
	ev.Set("spec_drift", rep.Drift)
	ev.Set("rule", "a case is one scenario of spec/Cli.tla (prior state of -out, -rm, output mode, argument list shape, injected fault) in one command-line spelling, executed with the real binary; distinct by that pair")
	ev.Set("exhaustive", true)
	if violations > 0 {
		return 1, nil
	}
	return 0, nil
}

func cliFinding(kf *core.FindingsFile, prop string, rec *Rec) string {
	for _, f := range kf.Findings {
		if f.Status != "open" {
			continue
		}
		applies := f.Property == prop
		for _, a := range f.Also {
			if a == prop {
				applies = true
			}
		}
		if !applies {
			continue
		}
		switch strings.Trim(string(f.Match), `"`) {
		case "cli:write-fault-after-trunc":
			if rec.Sc.Fault == "write" {
				return f.ID
			}
		}
	}
	return ""
}

var rePathArg = regexp.MustCompile(`(?:(AT_FDCWD|\d+)<([^>]*)>, )?"((?:[^"\\]|\\.)*)"`)

// targetPaths resolves the path arguments of a system call as strace -y
// printed them: absolute as they are, relative against the annotated
// directory descriptor (or the process's working directory).
func targetPaths(args, cwd string) []string {
	var out []string
	for _, m := range rePathArg.FindAllStringSubmatch(args, -1) {
		p := m[3]
		if p == "" {
			continue
		}
		if !filepath.IsAbs(p) {
			base := cwd
			if m[2] != "" {
				base = m[2]
			}
			p = base + "/" + p
		}
		out = append(out, kresolve(p))
	}
	return out
}
