package cli

import (
	"bytes"
	"fmt"
	"os"
	"os/exec"
	"path/filepath"
	"strings"

	"verif/internal/core"
	"verif/internal/gen"
)

// FlagPlumbing: the generator corpora go through the library entry points
// (moq.New + Mocker.Mock); this hook closes the gap to the command line. For
// every flag and a covering set of combinations the binary's standard output
// must be byte-identical to what the library produces for the corresponding
// moq.Config - so whatever the corpora establish for a configuration holds
// for the flags users actually type (main.go:29-42, 84-91).
func FlagPlumbing(prop string) func(sc *core.Scratch, ev *core.Evidence, rep *core.Reporter) (int, error) {
	return func(sc *core.Scratch, ev *core.Evidence, rep *core.Reporter) (int, error) {
		moq := sc.Path("moq-plumbing")
		if err := core.BuildMoq(moq); err != nil {
			return 2, err
		}
		root := sc.Path("plumbing")
		r := &runner{moq: moq, base: root, ref: map[string][]byte{}}
		os.MkdirAll(root, 0o755)
		root, _ = filepath.EvalSymlinks(root)
		if err := r.layout(root, Scenario{}); err != nil {
			return 2, err
		}
		type combo struct {
			flags    []string
			req      gen.GenReq
			trailing []string // flags written AFTER the positional arguments
		}
		base := gen.GenReq{SrcDir: filepath.Join(root, "p"), Cwd: root, Args: []string{"Store", "Other:PingerMock"}, Repeat: 1, FailAfter: -1}
		mk := func(flags []string, f func(q *gen.GenReq)) combo {
			q := base
			f(&q)
			return combo{flags: flags, req: q}
		}
		combos := []combo{
			mk(nil, func(q *gen.GenReq) {}),
			mk([]string{"-stub"}, func(q *gen.GenReq) { q.Stub = true }),
			mk([]string{"-skip-ensure"}, func(q *gen.GenReq) { q.SkipEnsure = true }),
			mk([]string{"-with-resets"}, func(q *gen.GenReq) { q.WithResets = true }),
			mk([]string{"-fmt", "noop"}, func(q *gen.GenReq) { q.Fmt = "noop" }),
			mk([]string{"-fmt", "goimports"}, func(q *gen.GenReq) { q.Fmt = "goimports" }),
			mk([]string{"-fmt", "gofmt"}, func(q *gen.GenReq) { q.Fmt = "gofmt" }),
			mk([]string{"-pkg", "mocks"}, func(q *gen.GenReq) { q.PkgName = "mocks" }),
			mk([]string{"-pkg", "p_test"}, func(q *gen.GenReq) { q.PkgName = "p_test" }),
			mk([]string{"-pkg", "mocks", "-skip-ensure"}, func(q *gen.GenReq) { q.PkgName, q.SkipEnsure = "mocks", true }),
			mk([]string{"-stub", "-with-resets"}, func(q *gen.GenReq) { q.Stub, q.WithResets = true, true }),
			// flags that do not reach the library must not reach the output either
			mk([]string{"-rm"}, func(q *gen.GenReq) {}),
			mk([]string{"-rm", "-stub", "-fmt", "noop"}, func(q *gen.GenReq) { q.Stub, q.Fmt = true, "noop" }),
			mk([]string{"-out", ""}, func(q *gen.GenReq) {}),
			// boolean flags spelled with an explicit value (a templated go:generate line: -stub=$(STUB))
			mk([]string{"-stub=false"}, func(q *gen.GenReq) {}),
			mk([]string{"-with-resets=false", "-skip-ensure=0"}, func(q *gen.GenReq) {}),
			mk([]string{"-stub=true", "-with-resets=F", "-rm=false"}, func(q *gen.GenReq) { q.Stub = true }),
			mk([]string{"-skip-ensure=t", "-stub=0", "-with-resets=1"}, func(q *gen.GenReq) { q.SkipEnsure, q.WithResets = true, true }),
			mk([]string{"-stub", "-skip-ensure", "-with-resets", "-pkg", "mocks", "-fmt", "noop"}, func(q *gen.GenReq) {
				q.Stub, q.SkipEnsure, q.WithResets, q.PkgName, q.Fmt = true, true, true, "mocks", "noop"
			}),
			mk([]string{"-with-resets", "-fmt", "goimports", "-pkg", "mocks"}, func(q *gen.GenReq) { q.WithResets, q.Fmt, q.PkgName = true, "goimports", "mocks" }),
		}
		// flags after the positional arguments: moq as it is refuses them (flag parsing has
		// stopped; the flag is looked up as an interface). Should a version accept them, every
		// flag of the command line must be honoured - the ones in front included.
		for _, t := range []combo{mk([]string{"-stub"}, func(q *gen.GenReq) { q.Stub, q.WithResets = true, true }), mk([]string{"-with-resets", "-pkg", "mocks"}, func(q *gen.GenReq) { q.WithResets, q.PkgName, q.Stub = true, "mocks", true })} {
			if t.req.PkgName == "" {
				t.trailing = []string{"-with-resets"}
			} else {
				t.trailing = []string{"-stub"}
			}
			combos = append(combos, t)
		}
		pool, err := gen.NewPool(8)
		if err != nil {
			return 2, err
		}
		reqs := make([]gen.GenReq, len(combos))
		for i := range combos {
			reqs[i] = combos[i].req
		}
		resps, err := pool.Run(reqs)
		if err != nil {
			return 2, err
		}
		violations := 0
		for i, c := range combos {
			var so, se bytes.Buffer
			var runErr error
			for attempt := 0; attempt < 3; attempt++ {
				so.Reset()
				se.Reset()
				cmd := exec.Command(moq, append(append(append([]string{}, c.flags...), "p", "Store", "Other:PingerMock"), c.trailing...)...)
				cmd.Dir, cmd.Env = root, moqEnv()
				cmd.Stdout, cmd.Stderr = &so, &se
				if runErr = cmd.Run(); runErr == nil {
					break
				}
			}
			ev.Add("evaluations", 1)
			ev.Distinct("plumbing|" + strings.Join(c.flags, " "))
			lib := resps[i]
			if lib.Crash != "" || lib.Panic != "" || lib.Err != "" || runErr != nil {
				if len(c.trailing) > 0 && runErr != nil {
					continue // refused, as predicted by spec/Cli.tla (args = flagslast)
				}
				if (lib.Err != "") != (runErr != nil) {
					rep.DriftNote(fmt.Sprintf("flag plumbing %v: library err=%q, command line err=%v %s", c.flags, lib.Err, runErr, firstLine(se.String())))
				}
				continue
			}
			if so.String() != lib.Out {
				rep.Violation(prop, map[string]any{"kind": "the command line does not generate what the library generates for the same configuration (a flag is not forwarded, or forwarded wrongly)",
					"flags": c.flags, "config": c.req, "cli_bytes": so.Len(), "library_bytes": len(lib.Out), "first_difference": firstDiff(so.String(), lib.Out)})
				violations++
			}
		}
		ev.Set("flag_plumbing_combinations", len(combos))
		if violations > 0 {
			return 1, nil
		}
		return 0, nil
	}
}

func firstDiff(a, b string) string {
	la, lb := strings.Split(a, "\n"), strings.Split(b, "\n")
	for i := 0; i < len(la) && i < len(lb); i++ {
		if la[i] != lb[i] {
			return fmt.Sprintf("line %d: cli %q, library %q", i+1, la[i], lb[i])
		}
	}
	return fmt.Sprintf("lengths differ: %d vs %d lines", len(la), len(lb))
}
