package main

import (
	"encoding/json"
	"fmt"
	"os"
	"path/filepath"
	"strings"
	"time"

	"verif/internal/core"
)

// replay re-runs the witness stored in a replay file as far as it can be done
// stand-alone: generator cases are re-materialised (source package, moq
// command line, go vet on the result); for run-time and command-line
// witnesses the stored scenario is printed together with the command that
// reproduces it deterministically.
func replay(path string) int {
	b, err := os.ReadFile(path)
	if err != nil {
		fmt.Fprintln(os.Stderr, err)
		return 2
	}
	var r map[string]any
	if err := json.Unmarshal(b, &r); err != nil {
		fmt.Fprintln(os.Stderr, "not a replay file:", err)
		return 2
	}
	base := filepath.Base(path)
	prop := strings.SplitN(base, "-", 2)[0]
	fmt.Printf("replay of %s (property %s)\nkind: %v\nhow it was observed: %v\n\n", path, prop, r["kind"], r["how"])
	c, isGen := r["case"].(map[string]any)
	if !isGen {
		pretty, _ := json.MarshalIndent(r, "", "  ")
		fmt.Println(string(pretty))
		fmt.Printf("\nto reproduce: VERIF_SEED=%d /verif/bin/check %s quick   (deterministic for a given seed and tree)\n", core.Seed(), prop)
		return 0
	}
	src, _ := c["source"].(string)
	cfg, _ := c["cfg"].(map[string]any)
	sc, err := core.NewScratch("replay")
	if err != nil {
		fmt.Fprintln(os.Stderr, err)
		return 2
	}
	defer sc.Cleanup()
	root := sc.Path("w")
	core.WriteFile(filepath.Join(root, "go.mod"), []byte("module wmod.test/w\n\ngo 1.24\n"))
	// dependency packages named in the record
	if pk, ok := c["pkgs"].([]any); ok {
		for _, p := range pk {
			m := p.(map[string]any)
			pth, name := fmt.Sprint(m["path"]), fmt.Sprint(m["name"])
			if strings.HasPrefix(pth, "wmod.test/w/") {
				core.WriteFile(filepath.Join(root, strings.TrimPrefix(pth, "wmod.test/w/"), "dep.go"),
					[]byte("package "+name+"\n\ntype T struct{ V int }\ntype U int\ntype G[X any] struct{ V X }\ntype I interface{ Do(T) U }\ntype Num interface{ ~int | ~int64 }\ntype A = T\ntype GA[X any] = map[string]X\ntype Opt[X any] = *X\ntype Pair[X any, Y any] struct { L X; R Y }\ntype Fn func(T) (U, error)\ntype Sl []T\ntype Mp map[string]*T\ntype Ch chan T\nconst Len = 3\ntype Arr [Len]T\ntype Ptr *T\n"))
			}
		}
	}
	pkgName := "src"
	for _, part := range strings.Split(src, "// ---- ") {
		nl := strings.Index(part, "\n")
		if nl < 0 {
			continue
		}
		name, body := strings.TrimSpace(part[:nl]), part[nl+1:]
		for _, ln := range strings.Split(body, "\n") {
			if strings.HasPrefix(ln, "package ") {
				pkgName = strings.TrimSpace(strings.TrimPrefix(ln, "package "))
				break
			}
		}
		core.WriteFile(filepath.Join(root, "src", "case", pkgName, name), []byte(body))
	}
	moq := sc.Path("moq")
	if err := core.BuildMoq(moq); err != nil {
		fmt.Fprintln(os.Stderr, err)
		return 2
	}
	var args []string
	if b, _ := cfg["stub"].(bool); b {
		args = append(args, "-stub")
	}
	if b, _ := cfg["skipEnsure"].(bool); b {
		args = append(args, "-skip-ensure")
	}
	if b, _ := cfg["withResets"].(bool); b {
		args = append(args, "-with-resets")
	}
	if f := fmt.Sprint(cfg["fmt"]); f != "" && f != "<nil>" {
		args = append(args, "-fmt", f)
	}
	srcDir := filepath.Join(root, "src", "case", pkgName)
	out := filepath.Join(srcDir, "zz_mock.go")
	if p := fmt.Sprint(cfg["pkgName"]); p != "" && p != "<nil>" {
		args = append(args, "-pkg", p)
		if fmt.Sprint(cfg["dest"]) == "other" {
			out = filepath.Join(root, "src", "case", pkgName, p, "zz_mock.go")
		} else if fmt.Sprint(cfg["dest"]) == "srcTest" {
			out = filepath.Join(srcDir, "zz_mock_test.go")
		}
	}
	args = append(args, "-out", out, srcDir)
	if a, ok := cfg["args"].([]any); ok {
		for _, x := range a {
			args = append(args, fmt.Sprint(x))
		}
	}
	fmt.Println("$ moq", strings.Join(args, " "))
	o, err := core.Run(root, 2*time.Minute, core.GoEnv(), moq, args...)
	fmt.Print(o)
	if err != nil {
		fmt.Println("moq:", err)
		return 1
	}
	fmt.Println("$ go vet ./...")
	o, err = core.Run(root, 5*time.Minute, core.GoEnv(), "go", "vet", "./src/...")
	fmt.Print(o)
	if err != nil {
		fmt.Println("=> the generated file does not pass go vet (see above); the recorded failed predicates were:", r["failed_predicates"])
		return 1
	}
	fmt.Println("=> compiles; the recorded failed predicates were:", r["failed_predicates"], "(judged on the projection, see the record)")
	return 0
}
