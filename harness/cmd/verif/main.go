// verif: the check runner. `verif check <property> <quick|thorough>`.
package main

import (
	"errors"
	"fmt"
	"os"
	"strings"

	"verif/internal/cli"
	"verif/internal/core"
	"verif/internal/gen"
	"verif/internal/rt"
)

// staleMock: scenarios in which an earlier run with OTHER flags (or for an older
// source) left a mock at -out. The run-time properties are established for the
// mock a command generates; this closes the gap to the mock that is on disk
// afterwards (it must be that one, not the earlier one).
func staleMock(s cli.Scenario) bool {
	return (s.Prior == "ownstub" || s.Prior == "ownlong" || s.Prior == "ownnoop" || s.Prior == "older") && s.Out != "stdout" && s.Fault == "none" && s.Flag == "none"
}

func main() {
	if len(os.Args) < 2 {
		usage()
	}
	switch os.Args[1] {
	case "worker":
		gen.WorkerMain()
	case "replay":
		if len(os.Args) < 3 {
			usage()
		}
		os.Exit(replay(os.Args[2]))
	case "check":
		if len(os.Args) < 4 {
			usage()
		}
		os.Exit(check(os.Args[2], os.Args[3]))
	default:
		usage()
	}
}

func usage() {
	fmt.Fprintln(os.Stderr, "usage: verif check <property> <quick|thorough> | verif replay <file>")
	os.Exit(2)
}

func check(prop, tier string) int {
	var code int
	var err error
	switch prop {
	case "C08":
		code, err = rt.RunSeq(prop, tier, gen.ExtraC08(tier), cli.Subset(prop, tier, staleMock), cli.FlagPlumbing(prop))
	case "C07":
		code, err = rt.RunSeq(prop, tier, cli.Subset(prop, tier, func(s cli.Scenario) bool { return s.Prior == "ownstub" || s.Stub }), cli.FlagPlumbing(prop))
	case "C03", "C04":
		code, err = rt.RunSeq(prop, tier, cli.Subset(prop, tier, staleMock))
	case "C16":
		code, err = gen.RunGen(prop, tier, cli.Subset(prop, tier, func(s cli.Scenario) bool { return s.Prior == "ownnoop" || (s.Prior == "own" && s.Args == "ok") }), cli.FlagPlumbing(prop))
	case "C14":
		code, err = gen.RunGen(prop, tier, cli.Subset(prop, tier, func(s cli.Scenario) bool {
			return strings.HasPrefix(s.Prior, "own") && s.Out != "stdout" && s.Fault == "none"
		}))
	case "C01", "C10":
		code, err = gen.RunGen(prop, tier, cli.FlagPlumbing(prop))
	case "C02", "C09", "C11", "C12", "C13", "C20":
		code, err = gen.RunGen(prop, tier)
	case "C15":
		code, err = cli.RunCLI(prop, tier, gen.ExtraC15(tier))
	case "C17":
		code, err = cli.RunCLI(prop, tier, gen.ExtraC17(tier))
	case "C18":
		code, err = cli.RunCLI(prop, tier, nil)
	case "C19":
		code, err = cli.RunCLI(prop, tier, gen.ExtraC19(tier))
	case "C05":
		code, err = rt.RunConc(prop, tier)
	case "C06":
		code, err = rt.RunConc(prop, tier, gen.ExtraC06(tier))
	default:
		fmt.Fprintln(os.Stderr, "no check for", prop)
		return 2
	}
	if err != nil {
		var ie *core.InfraError
		if errors.As(err, &ie) {
			fmt.Fprintln(os.Stderr, "INFRASTRUCTURE:", ie.Msg)
		} else {
			fmt.Fprintln(os.Stderr, "ERROR:", err)
		}
		return 2
	}
	return code
}
