// Package mockdrv drives arbitrary moq-generated mocks by reflection. It is
// copied into the scratch module of a check run and linked with the generated
// files (never with moq itself). Standard library only.
package mockdrv

import (
	"bytes"
	"context"
	"errors"
	"fmt"
	"reflect"
	"runtime"
	"sort"
	"strconv"
	"strings"
	"sync"
	"unsafe"
)

// ---- value generation: pairwise distinguishable arguments and results ----

type gen struct{ ctr int }

type drvErr struct{ n int }

func (e *drvErr) Error() string { return "drvErr#" + strconv.Itoa(e.n) }

type drvStringer struct{ n int }

func (s *drvStringer) String() string { return "stringer#" + strconv.Itoa(s.n) }

type ctxKey struct{}

var errorType = reflect.TypeOf((*error)(nil)).Elem()

func (g *gen) next() int { g.ctr++; return g.ctr }

// candidates returns values that might implement an interface type.
func (g *gen) candidates() []reflect.Value {
	n := g.next()
	return []reflect.Value{
		reflect.ValueOf(&drvErr{n}),
		reflect.ValueOf(&drvStringer{n}),
		reflect.ValueOf(someContext(n)),
		reflect.ValueOf(bytes.NewBufferString("buf#" + strconv.Itoa(n))),
		reflect.ValueOf(strings.NewReader("rd#" + strconv.Itoa(n))),
		reflect.ValueOf(errors.New("err#" + strconv.Itoa(n))),
	}
}

// someContext: distinguishable contexts; every third one is already cancelled
// (what a configured function does with it is its business, not the mock's).
func someContext(n int) context.Context {
	ctx := context.WithValue(context.Background(), ctxKey{}, n)
	if n%3 == 0 {
		c, cancel := context.WithCancel(ctx)
		cancel()
		return c
	}
	return ctx
}

// Value makes a fresh value of type t whose fingerprint differs from every
// other value made by this generator wherever the type allows it.
func (g *gen) Value(t reflect.Type, depth int) reflect.Value {
	v := reflect.New(t).Elem()
	if depth > 4 {
		return v
	}
	switch t.Kind() {
	case reflect.Bool:
		v.SetBool(g.next()%2 == 0)
	case reflect.Int8:
		v.SetInt(int64(g.next()%100 + 1))
	case reflect.Int, reflect.Int16, reflect.Int32, reflect.Int64:
		v.SetInt(int64(g.next() + 1000))
	case reflect.Uint8:
		v.SetUint(uint64(g.next()%200 + 1))
	case reflect.Uint, reflect.Uint16, reflect.Uint32, reflect.Uint64, reflect.Uintptr:
		v.SetUint(uint64(g.next() + 2000))
	case reflect.Float32, reflect.Float64:
		v.SetFloat(float64(g.next()) + 0.5)
	case reflect.Complex64, reflect.Complex128:
		v.SetComplex(complex(float64(g.next()), 1))
	case reflect.String:
		v.SetString("v" + strconv.Itoa(g.next()))
	case reflect.Ptr:
		p := reflect.New(t.Elem())
		p.Elem().Set(g.Value(t.Elem(), depth+1))
		v.Set(p)
	case reflect.Slice:
		s := reflect.MakeSlice(t, 2, 3)
		s.Index(0).Set(g.Value(t.Elem(), depth+1))
		s.Index(1).Set(g.Value(t.Elem(), depth+1))
		v.Set(s)
	case reflect.Array:
		for i := 0; i < t.Len(); i++ {
			v.Index(i).Set(g.Value(t.Elem(), depth+1))
		}
	case reflect.Map:
		m := reflect.MakeMap(t)
		if t.Key().Comparable() {
			k := g.Value(t.Key(), depth+1)
			if k.Comparable() {
				m.SetMapIndex(k, g.Value(t.Elem(), depth+1))
			}
		}
		v.Set(m)
	case reflect.Chan:
		c := reflect.MakeChan(reflect.ChanOf(reflect.BothDir, t.Elem()), 1)
		v.Set(c.Convert(t))
	case reflect.Func:
		ft := t
		v.Set(reflect.MakeFunc(ft, func(args []reflect.Value) []reflect.Value {
			out := make([]reflect.Value, ft.NumOut())
			for i := range out {
				out[i] = reflect.Zero(ft.Out(i))
			}
			return out
		}))
	case reflect.Interface:
		if t.NumMethod() == 0 {
			v.Set(reflect.ValueOf("any" + strconv.Itoa(g.next())))
			break
		}
		found := false
		for _, c := range g.candidates() {
			if c.Type().Implements(t) {
				v.Set(c)
				found = true
				break
			}
		}
		if !found {
			// an interface of the corpus itself (a method that returns its own
			// interface): a fresh, unconfigured mock of it is a distinguishable value
			if c, ok := registryCandidate(t); ok {
				v.Set(c)
			}
		}
	case reflect.Struct:
		for i := 0; i < t.NumField(); i++ {
			if f := v.Field(i); f.CanSet() {
				f.Set(g.Value(t.Field(i).Type, depth+1))
			}
		}
	}
	return v
}

// Fingerprint: scalars by value, reference kinds by identity (and length and
// capacity for slices), composites field by field.
func Fingerprint(v reflect.Value) string {
	var b strings.Builder
	fp(&b, v, 0)
	return b.String()
}

func fp(b *strings.Builder, v reflect.Value, depth int) {
	if !v.IsValid() {
		b.WriteString("invalid")
		return
	}
	if depth > 6 {
		b.WriteString("…")
		return
	}
	switch v.Kind() {
	case reflect.Bool:
		fmt.Fprintf(b, "%t", v.Bool())
	case reflect.Int, reflect.Int8, reflect.Int16, reflect.Int32, reflect.Int64:
		fmt.Fprintf(b, "%d", v.Int())
	case reflect.Uint, reflect.Uint8, reflect.Uint16, reflect.Uint32, reflect.Uint64, reflect.Uintptr:
		fmt.Fprintf(b, "%du", v.Uint())
	case reflect.Float32, reflect.Float64:
		fmt.Fprintf(b, "%g", v.Float())
	case reflect.Complex64, reflect.Complex128:
		fmt.Fprintf(b, "%g", v.Complex())
	case reflect.String:
		fmt.Fprintf(b, "%q", v.String())
	case reflect.Ptr, reflect.Chan, reflect.Map, reflect.UnsafePointer:
		if v.IsNil() {
			b.WriteString("nil")
		} else {
			fmt.Fprintf(b, "%s@%x", v.Kind(), v.Pointer())
		}
	case reflect.Func:
		if v.IsNil() {
			b.WriteString("nilfunc")
		} else {
			fmt.Fprintf(b, "func@%x", closurePtr(v))
		}
	case reflect.Slice:
		if v.IsNil() {
			b.WriteString("nilslice")
		} else {
			fmt.Fprintf(b, "slice@%x:%d:%d", v.Pointer(), v.Len(), v.Cap())
		}
	case reflect.Interface:
		if v.IsNil() {
			b.WriteString("niliface")
		} else {
			fmt.Fprintf(b, "i<%s>(", v.Elem().Type())
			fp(b, v.Elem(), depth+1)
			b.WriteString(")")
		}
	case reflect.Struct:
		b.WriteString("{")
		for i := 0; i < v.NumField(); i++ {
			if i > 0 {
				b.WriteString(",")
			}
			fp(b, v.Field(i), depth+1)
		}
		b.WriteString("}")
	case reflect.Array:
		b.WriteString("[")
		for i := 0; i < v.Len(); i++ {
			if i > 0 {
				b.WriteString(",")
			}
			fp(b, v.Index(i), depth+1)
		}
		b.WriteString("]")
	default:
		b.WriteString("?")
	}
}

// closurePtr identifies a func value by its closure object. reflect's own
// Pointer() returns the shared trampoline for every reflect.MakeFunc value.
func closurePtr(v reflect.Value) uintptr {
	if v.CanAddr() {
		return uintptr(*(*unsafe.Pointer)(unsafe.Pointer(v.UnsafeAddr())))
	}
	c := reflect.New(v.Type()).Elem()
	if v.CanInterface() {
		c.Set(v)
		return uintptr(*(*unsafe.Pointer)(unsafe.Pointer(c.UnsafeAddr())))
	}
	return v.Pointer()
}

func fpList(vs []reflect.Value) []string {
	out := make([]string, len(vs))
	for i, v := range vs {
		out[i] = Fingerprint(v)
	}
	return out
}

// goid parses the current goroutine's id from its stack header.
func goid() int64 {
	var buf [64]byte
	n := runtime.Stack(buf[:], false)
	f := strings.Fields(string(buf[:n]))
	if len(f) >= 2 {
		id, _ := strconv.ParseInt(f[1], 10, 64)
		return id
	}
	return -1
}

var (
	regCand   = map[reflect.Type]string{}
	regCandMu sync.Mutex // race mode generates values on several goroutines
)

// registryCandidate: a new instance of some registered mock type that implements t.
func registryCandidate(t reflect.Type) (reflect.Value, bool) {
	regCandMu.Lock()
	defer regCandMu.Unlock()
	name, ok := regCand[t]
	if !ok {
		names := make([]string, 0, len(registry))
		for n := range registry {
			names = append(names, n)
		}
		sort.Strings(names)
		for _, n := range names {
			if reflect.TypeOf(registry[n].New()).Implements(t) {
				name = n
				break
			}
		}
		regCand[t] = name
	}
	if name == "" {
		return reflect.Value{}, false
	}
	return reflect.ValueOf(registry[name].New()), true
}
