package mockdrv

import (
	"fmt"
	"reflect"
	"strings"
)

// Entry describes one generated mock registered with the driver.
type Entry struct {
	Name     string     // unique key, e.g. "s0r1e0_in/ShapesMock"
	New      func() any // new(<MockType>[...])
	Methods  []string   // the interface's complete method set
	MockType string     // mock type name as requested on the command line
	Iface    string     // interface name
	Stub     bool
	Resets   bool
	Fields   map[string][]string // method -> expected call-record field names ("" where the interface writes no name)
}

var registry = map[string]*Entry{}

func Register(e Entry) {
	c := e
	registry[e.Name] = &c
}

// Hooks let the scheduler (sched build) see operation boundaries. nil in the
// plain and race builds.
type Hooks struct {
	FuncEnter func(method string)
	FuncExit  func(method string)
}

// M wraps one mock instance.
type M struct {
	E     *Entry
	V     reflect.Value // *MockType
	G     *gen
	Hooks *Hooks

	argFP   map[int][]string // call id -> fingerprints of the arguments passed
	nextID  int
	events  []invEvent // function invocations since the last op started
	depth   int        // nesting of configured functions currently running
	mode    map[string][]string
	frames  []*frame
	tokens  int
	retCtr  int      // invocations of configured functions (every third returns zero values)
	cbFault []string // things the callbacks themselves found wrong
}

type invEvent struct {
	Method string
	FPs    []string
	Goid   int64
	Depth  int
	ResFP  []string
}

type frame struct {
	id     int
	method string
	seen   map[string][][]string
	seen2  map[string][][]string
	id2    int
	token  *panicToken
}

type panicToken struct{ n int }

func NewM(e *Entry) *M {
	v := reflect.ValueOf(e.New())
	return &M{E: e, V: v, G: &gen{}, argFP: map[int][]string{}, nextID: 1, mode: map[string][]string{}}
}

func (m *M) method(name string) (reflect.Value, error) {
	mv := m.V.MethodByName(name)
	if !mv.IsValid() {
		return mv, fmt.Errorf("mock %s has no method %s", m.V.Type(), name)
	}
	return mv, nil
}

func (m *M) funcField(method string) (reflect.Value, error) {
	f := m.V.Elem().FieldByName(method + "Func")
	if !f.IsValid() || f.Kind() != reflect.Func {
		return f, fmt.Errorf("mock %s has no func field %sFunc", m.V.Type(), method)
	}
	return f, nil
}

// HasMethod reports whether *Mock has the named method.
func (m *M) HasMethod(name string) bool { return m.V.MethodByName(name).IsValid() }

// Snapshot reads <method>Calls() and fingerprints each record field by field.
func (m *M) Snapshot(method string) ([][]string, reflect.Value, error) {
	mv, err := m.method(method + "Calls")
	if err != nil {
		return nil, reflect.Value{}, err
	}
	out := mv.Call(nil)
	if len(out) != 1 || out[0].Kind() != reflect.Slice {
		return nil, reflect.Value{}, fmt.Errorf("%sCalls() does not return one slice", method)
	}
	return recordsFP(out[0]), out[0], nil
}

func recordsFP(s reflect.Value) [][]string {
	recs := make([][]string, s.Len())
	for i := range recs {
		r := s.Index(i)
		if r.Kind() != reflect.Struct {
			recs[i] = []string{Fingerprint(r)}
			continue
		}
		fs := make([]string, r.NumField())
		for j := range fs {
			fs[j] = Fingerprint(r.Field(j))
		}
		recs[i] = fs
	}
	return recs
}

func (m *M) SnapshotAll() map[string][][]string {
	all := map[string][][]string{}
	for _, x := range m.E.Methods {
		s, _, err := m.Snapshot(x)
		if err != nil {
			m.cbFault = append(m.cbFault, err.Error())
		}
		all[x] = s
	}
	return all
}

// install sets every function field: `plain` recorders everywhere, and the
// given behaviour on `method` (nil leaves that field nil).
func (m *M) install(method string, mode []string) error {
	for _, x := range m.E.Methods {
		f, err := m.funcField(x)
		if err != nil {
			return err
		}
		md := []string{"ret"}
		if x == method {
			md = mode
		}
		m.mode[x] = md
		if md[0] == "nil" {
			f.Set(reflect.Zero(f.Type()))
			continue
		}
		f.Set(reflect.MakeFunc(f.Type(), m.impl(x, f.Type())))
	}
	return nil
}

func (m *M) impl(x string, ft reflect.Type) func([]reflect.Value) []reflect.Value {
	return func(args []reflect.Value) []reflect.Value {
		if m.Hooks != nil && m.Hooks.FuncEnter != nil {
			m.Hooks.FuncEnter(x)
			defer m.Hooks.FuncExit(x)
		}
		d := m.depth
		results := make([]reflect.Value, ft.NumOut())
		// what a configured function returns is fresh and distinguishable - except every
		// third time, when it returns the zero value of every result (nil error, nil
		// interface, "", 0): a mock must hand those back unchanged too (C03)
		m.retCtr++
		for i := range results {
			if m.retCtr%3 == 0 {
				results[i] = reflect.Zero(ft.Out(i))
			} else {
				results[i] = m.G.Value(ft.Out(i), 0)
			}
		}
		m.events = append(m.events, invEvent{Method: x, FPs: fpList(args), Goid: goid(), Depth: d, ResFP: fpList(results)})
		m.depth++
		defer func() { m.depth-- }()
		var fr *frame
		if len(m.frames) > 0 {
			fr = m.frames[len(m.frames)-1]
		}
		seen := m.SnapshotAll()
		if fr != nil {
			if d == 0 {
				fr.seen = seen
			} else if fr.seen2 == nil {
				fr.seen2 = seen
			}
		}
		md := m.mode[x]
		if d > 0 {
			md = []string{"ret"}
		}
		switch md[0] {
		case "panic":
			m.tokens++
			t := &panicToken{m.tokens}
			if fr != nil {
				fr.token = t
			}
			panic(t)
		case "call":
			r := m.rawCall(md[1], nil)
			if fr != nil {
				fr.id2 = r.ID
			}
			if r.Outcome != "ret" {
				m.cbFault = append(m.cbFault, "nested call of "+md[1]+" ended with "+r.Outcome+" "+r.PanicMsg)
			} else if strings.Join(r.Res, "|") != strings.Join(r.WantRes, "|") {
				m.cbFault = append(m.cbFault, "nested call of "+md[1]+": results differ from what its function returned")
			}
		case "reset":
			if mv, err := m.method("Reset" + md[1] + "Calls"); err == nil {
				mv.Call(nil)
			} else {
				m.cbFault = append(m.cbFault, err.Error())
			}
		case "resetall":
			if mv, err := m.method("ResetCalls"); err == nil {
				mv.Call(nil)
			} else {
				m.cbFault = append(m.cbFault, err.Error())
			}
		}
		return results
	}
}

// CallResult is what the caller of a mock method observed.
type CallResult struct {
	ID       int
	Outcome  string // ret | panic (our token came back) | strpanic | errpanic | otherpanic | foreignpanic | nomethod
	PanicMsg string
	Res      []string // fingerprints of the returned values
	WantRes  []string // fingerprints of what the function serving this call produced (nil if none ran)
	AllZero  bool
	Served   bool // some invocation of this method's function happened during the call
}

// rawCall invokes a mock method with fresh arguments and classifies the outcome.
func (m *M) rawCall(method string, fr *frame) (r CallResult) {
	r.ID = m.nextID
	m.nextID++
	mv, err := m.method(method)
	if err != nil {
		r.Outcome, r.PanicMsg = "nomethod", err.Error()
		return
	}
	mt := mv.Type()
	args := make([]reflect.Value, mt.NumIn())
	for i := range args {
		// every fifth call passes the zero value of every parameter (nil context, nil
		// pointer, nil func, ""): legal arguments that a mock records and hands on like any other
		if m.nextID%5 == 0 && !(mt.IsVariadic() && i == len(args)-1) {
			args[i] = reflect.Zero(mt.In(i))
		} else {
			args[i] = m.G.Value(mt.In(i), 0)
		}
	}
	m.argFP[r.ID] = fpList(args)
	before := len(m.events)
	savedDepth := m.depth
	var out []reflect.Value
	func() {
		defer func() {
			if p := recover(); p != nil {
				m.depth = savedDepth
				switch t := p.(type) {
				case *panicToken:
					if fr != nil && fr.token == t {
						r.Outcome = "panic"
					} else {
						r.Outcome = "foreignpanic"
					}
				case string:
					r.Outcome, r.PanicMsg = "strpanic", t
				case error:
					r.Outcome, r.PanicMsg = "errpanic", t.Error()
				default:
					r.Outcome, r.PanicMsg = "otherpanic", fmt.Sprint(p)
				}
			}
		}()
		if mt.IsVariadic() {
			out = mv.CallSlice(args)
		} else {
			out = mv.Call(args)
		}
		r.Outcome = "ret"
	}()
	for _, e := range m.events[before:] {
		if e.Method == method && e.Depth == savedDepth {
			r.Served, r.WantRes = true, e.ResFP
			break
		}
	}
	if r.Outcome == "ret" {
		r.Res = fpList(out)
		r.AllZero = true
		for _, o := range out {
			if !o.IsZero() {
				r.AllZero = false
			}
		}
	}
	return
}
