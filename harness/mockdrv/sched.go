package mockdrv

// Controlled scheduler for the "sched build": generated files are compiled
// with their "sync" import redirected to this package and with Yield calls
// inserted before every access to the call records. Exactly one logical
// goroutine runs at a time; every synchronisation operation, record access
// and operation start is a gate at which the goroutine parks until the
// controller picks it. Nothing here is real locking: lock state lives in the
// scheduler, enabledness follows sync.RWMutex as implemented (a writer first
// excludes other writers and announces itself, then waits for readers to
// drain; readers block behind an announced writer).

import (
	"fmt"
	"reflect"
	"sort"
	"strings"
	realsync "sync"
	"sync/atomic"
	"unsafe"
)

// parts of sync the scheduler does not model are passed through unchanged
type (
	Once      = realsync.Once
	WaitGroup = realsync.WaitGroup
	Map       = realsync.Map
	Pool      = realsync.Pool
	Cond      = realsync.Cond
)

var NewCond = realsync.NewCond

// RWMutex and Mutex stand in for sync.RWMutex / sync.Mutex in rewritten files.
type RWMutex struct{ _ [8]byte }
type Mutex struct{ _ [8]byte }

// Locker mirrors sync.Locker.
type Locker interface {
	Lock()
	Unlock()
}

type lockState struct {
	name      string
	writer    *G         // holds the write lock
	announced *G         // has passed LockAnnounce, not yet released
	readers   map[*G]int // active read locks
}

type gateKind int

const (
	gStart gateKind = iota
	gInv
	gLockAnnounce
	gLockAcquire
	gUnlock
	gRLock
	gRUnlock
	gYieldR
	gYieldW
	gWait
	gMLock
	gMUnlock
)

var gateNames = map[gateKind]string{gStart: "start", gInv: "inv", gLockAnnounce: "lockAnnounce", gLockAcquire: "lockAcquire",
	gUnlock: "unlock", gRLock: "rlock", gRUnlock: "runlock", gYieldR: "yieldR", gYieldW: "yieldW", gWait: "wait",
	gMLock: "mlock", gMUnlock: "munlock"}

type gate struct {
	kind gateKind
	lock *lockState
	addr uintptr
	size uintptr
	flag string
}

// G is a logical goroutine of a scenario.
type G struct {
	id     int
	resume chan struct{}
	at     gate
	done   bool
	prog   []POp
	pc     int    // index of the current top-level op
	local  uint64 // hash of everything this goroutine has observed (gates passed, values read)
	depth  int    // nesting of configured functions running on it
	curOp  *POp
	panicV any
	passed int  // preemption gates passed (position in the straight-line program of MockImpl)
	stuck  bool // never came back from its last resume (see concRunner.resumeG)
	goid   int64
}

// Event is one line of a schedule's log.
type Event struct {
	Seq  int      `json:"seq"`
	G    int      `json:"g"`
	Kind string   `json:"kind"`
	Lock string   `json:"lock,omitempty"`
	Op   int      `json:"op"`             // index of the goroutine's top-level op
	Held []string `json:"held,omitempty"` // locks held by g (for cbenter)
	Note string   `json:"note,omitempty"`
}

type raceRec struct {
	A, B string
}

type Sched struct {
	gs      []*G
	cur     *G
	toSched chan *G
	locks   map[unsafe.Pointer]*lockState
	names   func(p unsafe.Pointer) string
	flags   map[string]bool
	events  []Event
	seq     int
	races   map[string]bool
	fatal   string
	mem     func() string // abstract memory state (call records), read while everything is parked
	trace   bool
	abort   bool
	// focus: gates on locks/locations of methods outside the scenario are
	// passed without parking whenever they are enabled (fewer interleavings,
	// still only real behaviours); nil = everything is a preemption point
	focusLock func(l *lockState) bool
	focusAddr func(addr, size uintptr) bool
}

type abortSentinel struct{}

var theSched *Sched

// Goroutines that were abandoned because they blocked on something the
// scheduler does not control (see concRunner.resumeG). Should one of them wake
// up later (what it waited for was released while its run was unwound), it must
// not touch the scheduler of a later run: it parks for good at its next gate.
var (
	nAbandoned  int32
	abandonedMu realsync.Mutex
	abandonedG  = map[int64]bool{}
)

func abandon(id int64) {
	abandonedMu.Lock()
	abandonedG[id] = true
	abandonedMu.Unlock()
	atomic.AddInt32(&nAbandoned, 1)
}

// current returns the scheduler for the calling goroutine (nil outside a run).
func current() *Sched {
	if atomic.LoadInt32(&nAbandoned) > 0 {
		id := goid()
		abandonedMu.Lock()
		gone := abandonedG[id]
		abandonedMu.Unlock()
		if gone {
			select {}
		}
	}
	return theSched
}

func (s *Sched) lockFor(p unsafe.Pointer) *lockState {
	l := s.locks[p]
	if l == nil {
		n := fmt.Sprintf("lock@%p", p)
		if s.names != nil {
			if nm := s.names(p); nm != "" {
				n = nm
			}
		}
		l = &lockState{name: n, readers: map[*G]int{}}
		s.locks[p] = l
	}
	return l
}

func (s *Sched) log(g *G, kind, lock, note string, held []string) {
	s.seq++
	if s.trace {
		op := -1
		if g != nil {
			op = g.pc
		}
		gid := -1
		if g != nil {
			gid = g.id
		}
		s.events = append(s.events, Event{Seq: s.seq, G: gid, Kind: kind, Lock: lock, Op: op, Held: held, Note: note})
	}
}

// park is called by the running logical goroutine at a gate.
func (s *Sched) park(gt gate) {
	g := s.cur
	if s.abort {
		return
	}
	g.at = gt
	if (gt.lock != nil && s.focusLock != nil && !s.focusLock(gt.lock)) ||
		((gt.kind == gYieldR || gt.kind == gYieldW) && s.focusAddr != nil && !s.focusAddr(gt.addr, gt.size)) {
		if s.enabled(g) {
			s.apply(g)
			g.passed--
			return
		}
	}
	s.toSched <- g
	<-g.resume
	if s.abort {
		panic(abortSentinel{})
	}
}

func (s *Sched) enabled(g *G) bool {
	if g.done {
		return false
	}
	switch g.at.kind {
	case gLockAnnounce:
		return g.at.lock.announced == nil
	case gLockAcquire:
		l := g.at.lock
		n := 0
		for _, c := range l.readers {
			n += c
		}
		return n == 0 && l.writer == nil
	case gRLock:
		l := g.at.lock
		return l.announced == nil
	case gMLock:
		return g.at.lock.writer == nil
	case gWait:
		return s.flags[g.at.flag]
	}
	return true
}

// apply performs the state change of passing a gate (before the goroutine resumes).
func (s *Sched) apply(g *G) {
	gt := g.at
	lockName := ""
	if gt.lock != nil {
		lockName = gt.lock.name
	}
	switch gt.kind {
	case gLockAnnounce:
		gt.lock.announced = g
	case gLockAcquire:
		gt.lock.writer = g
	case gUnlock:
		if gt.lock.writer != g {
			s.fatal = fmt.Sprintf("g%d: Unlock of %s which it does not hold (sync: Unlock of unlocked RWMutex)", g.id, lockName)
		}
		gt.lock.writer = nil
		gt.lock.announced = nil
	case gRLock:
		gt.lock.readers[g]++
	case gRUnlock:
		if gt.lock.readers[g] == 0 {
			s.fatal = fmt.Sprintf("g%d: RUnlock of %s which it does not hold (sync: RUnlock of unlocked RWMutex)", g.id, lockName)
		} else if gt.lock.readers[g]--; gt.lock.readers[g] == 0 {
			delete(gt.lock.readers, g)
		}
	case gMLock:
		gt.lock.writer = g
	case gMUnlock:
		if gt.lock.writer == nil {
			s.fatal = fmt.Sprintf("g%d: Unlock of unlocked Mutex %s", g.id, lockName)
		}
		gt.lock.writer = nil
	}
	// local observation: the gate itself, and for reads the value of the location
	h := g.local*1099511628211 ^ uint64(gt.kind+1)
	if gt.kind == gYieldR && s.mem != nil {
		for _, c := range []byte(s.mem()) {
			h = h*1099511628211 ^ uint64(c)
		}
	}
	g.local = h
	g.passed++
	s.log(g, gateNames[gt.kind], lockName, "", nil)
}

func (s *Sched) heldBy(g *G) []string {
	var h []string
	for _, l := range s.locks {
		if l.writer == g || (l.announced == g) {
			h = append(h, l.name+":w")
		}
		if l.readers[g] > 0 {
			h = append(h, l.name+":r")
		}
	}
	sort.Strings(h)
	return h
}

// checkRaces: two goroutines both poised at record accesses of overlapping
// locations, at least one of them a write, is a data race (both steps are
// enabled, neither is ordered after the other).
func (s *Sched) checkRaces() {
	for i, a := range s.gs {
		if a.done || (a.at.kind != gYieldR && a.at.kind != gYieldW) {
			continue
		}
		for _, b := range s.gs[i+1:] {
			if b.done || (b.at.kind != gYieldR && b.at.kind != gYieldW) {
				continue
			}
			if a.at.kind == gYieldR && b.at.kind == gYieldR {
				continue
			}
			if a.at.addr < b.at.addr+b.at.size && b.at.addr < a.at.addr+a.at.size {
				k := fmt.Sprintf("g%d:%s(op %d) || g%d:%s(op %d)", a.id, gateNames[a.at.kind], a.pc, b.id, gateNames[b.at.kind], b.pc)
				s.races[k] = true
			}
		}
	}
}

// stateKey identifies the global state for pruning: memory, locks, flags and
// for every goroutine its control point and everything it has observed.
func (s *Sched) stateKey() string {
	var b strings.Builder
	if s.mem != nil {
		b.WriteString(s.mem())
	}
	ls := make([]string, 0, len(s.locks))
	for _, l := range s.locks {
		if l.writer == nil && l.announced == nil && len(l.readers) == 0 {
			continue
		}
		w, a := -1, -1
		if l.writer != nil {
			w = l.writer.id
		}
		if l.announced != nil {
			a = l.announced.id
		}
		rs := make([]string, 0)
		for g, c := range l.readers {
			rs = append(rs, fmt.Sprintf("%d*%d", g.id, c))
		}
		sort.Strings(rs)
		ls = append(ls, fmt.Sprintf("%s w%d a%d r%v", l.name, w, a, rs))
	}
	sort.Strings(ls)
	b.WriteString("|L")
	b.WriteString(strings.Join(ls, ";"))
	fl := make([]string, 0)
	for f, v := range s.flags {
		if v {
			fl = append(fl, f)
		}
	}
	sort.Strings(fl)
	b.WriteString("|F" + strings.Join(fl, ","))
	for _, g := range s.gs {
		ln := ""
		if g.at.lock != nil {
			ln = g.at.lock.name
		}
		fmt.Fprintf(&b, "|g%d pc%d d%v k%d %s l%x", g.id, g.pc, g.done, g.at.kind, ln, g.local)
	}
	return b.String()
}

// ---- API used by rewritten generated code ---------------------------------

func (m *RWMutex) Lock() {
	s := current()
	if s == nil {
		return
	}
	l := s.lockFor(unsafe.Pointer(m))
	s.park(gate{kind: gLockAnnounce, lock: l})
	s.park(gate{kind: gLockAcquire, lock: l})
}

func (m *RWMutex) Unlock() {
	s := current()
	if s == nil {
		return
	}
	s.park(gate{kind: gUnlock, lock: s.lockFor(unsafe.Pointer(m))})
}

func (m *RWMutex) RLock() {
	s := current()
	if s == nil {
		return
	}
	s.park(gate{kind: gRLock, lock: s.lockFor(unsafe.Pointer(m))})
}

func (m *RWMutex) RUnlock() {
	s := current()
	if s == nil {
		return
	}
	s.park(gate{kind: gRUnlock, lock: s.lockFor(unsafe.Pointer(m))})
}

func (m *RWMutex) TryLock() bool   { panic("mockdrv: TryLock is not modelled") }
func (m *RWMutex) TryRLock() bool  { panic("mockdrv: TryRLock is not modelled") }
func (m *RWMutex) RLocker() Locker { return rlocker{m} }

type rlocker struct{ m *RWMutex }

func (r rlocker) Lock()   { r.m.RLock() }
func (r rlocker) Unlock() { r.m.RUnlock() }

func (m *Mutex) Lock() {
	s := current()
	if s == nil {
		return
	}
	s.park(gate{kind: gMLock, lock: s.lockFor(unsafe.Pointer(m))})
}

func (m *Mutex) Unlock() {
	s := current()
	if s == nil {
		return
	}
	s.park(gate{kind: gMUnlock, lock: s.lockFor(unsafe.Pointer(m))})
}

func (m *Mutex) TryLock() bool { panic("mockdrv: TryLock is not modelled") }

// Yield marks an access to the call records: kind "r" or "w", p the address.
func Yield(kind string, p any) {
	s := current()
	if s == nil {
		return
	}
	v := reflect.ValueOf(p)
	var addr, size uintptr
	if v.Kind() == reflect.Ptr && !v.IsNil() {
		addr, size = v.Pointer(), v.Elem().Type().Size()
		if size == 0 {
			size = 1
		}
	}
	k := gYieldR
	if kind == "w" {
		k = gYieldW
	}
	s.park(gate{kind: k, addr: addr, size: size})
}
