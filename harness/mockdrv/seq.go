package mockdrv

import (
	"bufio"
	"encoding/json"
	"fmt"
	"math/rand"
	"os"
	"reflect"
	"sort"
	"strings"
	"sync"
	"time"
)

// How long one sequential operation on a mock may take before it counts as
// blocked forever (they normally take microseconds). On a machine under heavy
// load a runnable goroutine can wait seconds for a processor, so the first
// blockage in a variant (one flag combination = one run of the template) must
// last hangFirst; once one was seen there, further ones are believed after
// hangNext (each costs its limit).
var (
	hangFirst = 30 * time.Second
	hangNext  = 2 * time.Second
	hangMu    sync.Mutex
	hangSeen  = map[string]bool{}
)

func variantOf(mock string) string {
	if i := strings.Index(mock, "/"); i >= 0 {
		return mock[:i]
	}
	return mock
}

func hangLimit(mock string) time.Duration {
	hangMu.Lock()
	defer hangMu.Unlock()
	if hangSeen[variantOf(mock)] {
		return hangNext
	}
	return hangFirst
}

func noteHang(mock string) {
	hangMu.Lock()
	hangSeen[variantOf(mock)] = true
	hangMu.Unlock()
}

// ---- histories printed by TLC from spec/MockSeq.tla -----------------------

type HistEntry struct {
	Op        string           `json:"op"`
	M         string           `json:"m"`
	Mode      []string         `json:"mode"`
	ID        int              `json:"id"`
	Outcome   string           `json:"outcome"`
	Delegated map[string][]int `json:"delegated"`
	Seen      map[string][]int `json:"seen"`
	ID2       int              `json:"id2"`
	Seen2     map[string][]int `json:"seen2"`
	Snap      []int            `json:"snap"`
	After     map[string][]int `json:"after"`
}

type History struct {
	NilRec bool        `json:"nilRec"`
	H      []HistEntry `json:"h"`
}

type SeqJob struct {
	Kind        string            `json:"kind"` // "replay" | "record"
	Mock        string            `json:"mock"`
	Map         map[string]string `json:"map"` // abstract method -> real method
	HistFile    string            `json:"histFile"`
	MaxMismatch int               `json:"maxMismatch"`
	// record mode
	Seed    int64  `json:"seed"`
	Traces  int    `json:"traces"`
	Len     int    `json:"len"`
	OutFile string `json:"outFile"`
	Script  string `json:"script"` // "" = random operations, "growth" = see record mode
}

type Mismatch struct {
	Hist  int    `json:"hist"`
	Step  int    `json:"step"`
	Prop  string `json:"prop"`
	Field string `json:"field"`
	Want  string `json:"want"`
	Got   string `json:"got"`
	Op    string `json:"op"`
}

type SeqResult struct {
	Mock       string            `json:"mock"`
	Map        map[string]string `json:"map"`
	Histories  int               `json:"histories"`
	Skipped    int               `json:"skipped"`
	Steps      int               `json:"steps"`
	NilRec     bool              `json:"nilRec"`
	Mismatches []Mismatch        `json:"mismatches"`
	NMismatch  int               `json:"nMismatch"`
	Infra      string            `json:"infra,omitempty"`
	Traces     int               `json:"traces,omitempty"`
	Events     int               `json:"events,omitempty"`
}

// stepObs is what one top-level operation looked like on the real mock.
type stepObs struct {
	outcome   string
	panicMsg  string
	allZero   bool
	resOK     bool
	served    bool
	delegated map[string][]invEvent
	seen      map[string][][]string
	seen2     map[string][][]string
	id, id2   int
	snap      [][]string
	after     map[string][][]string
	faults    []string
	callerG   int64
}

type held struct {
	v    reflect.Value
	orig [][]string
	what string
}

type session struct {
	m     *M
	amap  map[string]string // abstract -> real
	rmap  map[string]string // real -> abstract
	stale []held
}

func newSession(e *Entry, amap map[string]string) *session {
	s := &session{m: NewM(e), amap: amap, rmap: map[string]string{}}
	for a, r := range amap {
		s.rmap[r] = a
	}
	return s
}

func (s *session) realMode(mode []string) []string {
	if len(mode) == 2 {
		return []string{mode[0], s.amap[mode[1]]}
	}
	return mode
}

func (s *session) hold(method string, what string) [][]string {
	fps, v, err := s.m.Snapshot(method)
	if err != nil {
		s.m.cbFault = append(s.m.cbFault, err.Error())
		return nil
	}
	if len(s.stale) < 64 {
		s.stale = append(s.stale, held{v, fps, what})
	}
	return fps
}

func (s *session) afterAll() map[string][][]string {
	all := map[string][][]string{}
	for _, x := range s.m.E.Methods {
		all[x] = s.hold(x, "after")
	}
	return all
}

// do performs one top-level operation and observes everything.
func (s *session) do(op, am string, amode []string) (o stepObs) {
	m := s.m
	rm := s.amap[am]
	m.events = m.events[:0]
	m.cbFault = m.cbFault[:0]
	o.callerG = goid()
	switch op {
	case "call":
		if err := m.install(rm, s.realMode(amode)); err != nil {
			o.outcome, o.panicMsg = "infra", err.Error()
			break
		}
		fr := &frame{method: rm}
		m.frames = append(m.frames, fr)
		r := m.rawCall(rm, fr)
		m.frames = m.frames[:len(m.frames)-1]
		fr.id = r.ID
		o.id, o.id2 = r.ID, fr.id2
		o.outcome, o.panicMsg, o.allZero, o.served = r.Outcome, r.PanicMsg, r.AllZero, r.Served
		o.resOK = strings.Join(r.Res, "|") == strings.Join(r.WantRes, "|")
		o.seen, o.seen2 = fr.seen, fr.seen2
		o.delegated = map[string][]invEvent{}
		for _, e := range m.events {
			o.delegated[e.Method] = append(o.delegated[e.Method], e)
		}
	case "calls":
		o.snap = s.hold(rm, "calls")
	case "reset":
		if mv, err := m.method("Reset" + rm + "Calls"); err == nil {
			mv.Call(nil)
		} else {
			o.outcome, o.panicMsg = "infra", err.Error()
		}
	case "resetall":
		if mv, err := m.method("ResetCalls"); err == nil {
			mv.Call(nil)
		} else {
			o.outcome, o.panicMsg = "infra", err.Error()
		}
	}
	o.after = s.afterAll()
	o.faults = append([]string(nil), m.cbFault...)
	return
}

func (s *session) staleChanged() string {
	for _, h := range s.stale {
		if now := recordsFP(h.v); !equalRecs(now, h.orig) {
			return fmt.Sprintf("a slice returned earlier by an accessor (%s) changed from %v to %v", h.what, h.orig, now)
		}
	}
	return ""
}

func equalRecs(a, b [][]string) bool {
	if len(a) != len(b) {
		return false
	}
	for i := range a {
		if strings.Join(a[i], "|") != strings.Join(b[i], "|") {
			return false
		}
	}
	return true
}

// wantRecs translates abstract ids to the fingerprints of their arguments.
func (s *session) wantRecs(ids []int) [][]string {
	out := make([][]string, len(ids))
	for i, id := range ids {
		out[i] = s.m.argFP[id]
	}
	return out
}

func showRecs(r [][]string) string {
	p := make([]string, len(r))
	for i := range r {
		p[i] = "(" + strings.Join(r[i], ",") + ")"
	}
	return "[" + strings.Join(p, " ") + "]"
}

// compareAll compares an abstract per-method id map with observed records.
// Methods of the mock outside the abstract map must be empty.
func (s *session) compareAll(want map[string][]int, got map[string][][]string) (bool, string, string) {
	ok := true
	var w, g []string
	for _, rm := range s.m.E.Methods {
		var ids []int
		if am, mapped := s.rmap[rm]; mapped {
			ids = want[am]
		}
		wr := s.wantRecs(ids)
		gr := got[rm]
		if !equalRecs(wr, gr) {
			ok = false
		}
		w = append(w, rm+"="+showRecs(wr))
		g = append(g, rm+"="+showRecs(gr))
	}
	return ok, strings.Join(w, " "), strings.Join(g, " ")
}

func nilMsgOK(e *Entry, method, msg string) bool {
	return strings.Contains(msg, e.MockType) && strings.Contains(msg, method+"Func") && strings.Contains(msg, e.Iface+"."+method)
}

// check compares the prescription of the spec with the observation.
func (s *session) check(hi, si int, e *HistEntry, o *stepObs, add func(Mismatch)) {
	mm := func(prop, field, want, got string) {
		add(Mismatch{Hist: hi, Step: si, Prop: prop, Field: field, Want: want, Got: got, Op: e.Op + " " + e.M + " " + strings.Join(e.Mode, ":")})
	}
	resetish := e.Op == "reset" || e.Op == "resetall" || (e.Op == "call" && (e.Mode[0] == "reset" || e.Mode[0] == "resetall"))
	if o.outcome == "infra" {
		mm("C08", "method-missing", "operation available", o.panicMsg)
		return
	}
	if e.Op == "call" {
		rm := s.amap[e.M]
		nilProp := "C03"
		if e.Mode[0] == "nil" {
			nilProp = "C07"
		}
		switch e.Outcome {
		case "ret":
			if o.outcome != "ret" {
				mm("C03", "outcome", "returns what the function returned", o.outcome+" "+o.panicMsg)
			} else if !o.resOK {
				mm("C03", "results", "the values the function returned", "different values")
			}
		case "panic":
			if o.outcome != "panic" {
				mm("C03", "outcome", "the function's panic value reaches the caller", o.outcome+" "+o.panicMsg)
			}
		case "nilpanic":
			if o.outcome != "strpanic" && o.outcome != "errpanic" {
				mm("C07", "outcome", "panic with identifying message", o.outcome+" "+o.panicMsg)
			} else if !nilMsgOK(s.m.E, rm, o.panicMsg) {
				mm("C07", "panic-message", fmt.Sprintf("names %s, %sFunc and %s.%s", s.m.E.MockType, rm, s.m.E.Iface, rm), o.panicMsg)
			}
		case "zero":
			if o.outcome != "ret" {
				mm("C07", "outcome", "stub returns zero values without panic", o.outcome+" "+o.panicMsg)
			} else if !o.allZero {
				mm("C07", "results", "zero values", "non-zero result")
			}
		}
		// delegation: per method the exact argument tuples, on the caller's goroutine
		for _, x := range s.m.E.Methods {
			var ids []int
			if am, ok := s.rmap[x]; ok {
				ids = e.Delegated[am]
			}
			evs := o.delegated[x]
			want := s.wantRecs(ids)
			got := make([][]string, len(evs))
			for i, ev := range evs {
				got[i] = ev.FPs
				if ev.Goid != o.callerG {
					mm("C03", "goroutine", "function runs on the caller's goroutine", fmt.Sprintf("goroutine %d, caller %d", ev.Goid, o.callerG))
				}
			}
			if !equalRecs(want, got) {
				mm(nilProp, "delegated:"+x, showRecs(want), showRecs(got))
			}
		}
		if e.Outcome == "ret" || e.Outcome == "panic" {
			if ok, w, g := s.compareAll(e.Seen, o.seen); !ok {
				mm("C04", "seen-inside-function", w, g)
			}
			if e.ID2 != 0 {
				if ok, w, g := s.compareAll(e.Seen2, o.seen2); !ok {
					mm("C04", "seen-inside-nested-function", w, g)
				}
			}
		}
		for _, f := range o.faults {
			mm("C03", "callback", "nested operation behaves", f)
		}
	}
	if e.Op == "calls" {
		if w := s.wantRecs(e.Snap); !equalRecs(w, o.snap) {
			mm("C04", "snapshot", showRecs(w), showRecs(o.snap))
		}
	}
	if ok, w, g := s.compareAll(e.After, o.after); !ok {
		p := "C04"
		if resetish {
			p = "C08"
		}
		mm(p, "state-after", w, g)
	}
	if st := s.staleChanged(); st != "" {
		mm("C04", "snapshot-stable", "returned slices never change", st)
	}
}

// probeNilRec finds out whether a default-mode call of a nil function leaves
// a record (left open by the properties). hung: the probe never returned.
func probeNilRec(e *Entry) (rec bool, hung bool) {
	if e.Stub || len(e.Methods) == 0 {
		return false, false
	}
	done := make(chan bool, 1)
	go func() {
		s := newSession(e, map[string]string{"A": e.Methods[0]})
		o := s.do("call", "A", []string{"nil"})
		done <- len(o.after[e.Methods[0]]) > 0
	}()
	select {
	case r := <-done:
		return r, false
	case <-time.After(hangLimit(e.Name)):
		noteHang(e.Name)
		return false, true
	}
}

func runSeqReplay(job *SeqJob) *SeqResult {
	res := &SeqResult{Mock: job.Mock, Map: job.Map}
	e := registry[job.Mock]
	if e == nil {
		res.Infra = "unknown mock " + job.Mock
		return res
	}
	var probeHung bool
	res.NilRec, probeHung = probeNilRec(e)
	if probeHung {
		res.NMismatch++
		res.Mismatches = append(res.Mismatches, Mismatch{Hist: 0, Step: 1, Prop: "C06,C07,C04", Field: "hang", Want: "operations return",
			Got: "after a call of a nil function panicked, reading the accessors never returns", Op: "call A nil; calls"})
		return res
	}
	// which field of a call record holds which argument: where the interface writes
	// parameter names, the record's fields carry those names, in order
	for _, x := range job.Map {
		want := e.Fields[x]
		mv := reflect.ValueOf(e.New())
		acc := mv.MethodByName(x + "Calls")
		if !acc.IsValid() || acc.Type().NumOut() != 1 || acc.Type().Out(0).Kind() != reflect.Slice {
			continue
		}
		st := acc.Type().Out(0).Elem()
		if st.Kind() != reflect.Struct {
			continue
		}
		var got []string
		for i := 0; i < st.NumField(); i++ {
			got = append(got, st.Field(i).Name)
		}
		bad := len(want) != len(got)
		for i := 0; !bad && i < len(want); i++ {
			if want[i] != "" && want[i] != got[i] {
				bad = true
			}
		}
		if bad {
			res.NMismatch++
			res.Mismatches = append(res.Mismatches, Mismatch{Hist: 0, Step: 0, Prop: "C04", Field: "record-field-names",
				Want: fmt.Sprint(want), Got: fmt.Sprint(got), Op: x + "Calls"})
		}
	}
	f, err := os.Open(job.HistFile)
	if err != nil {
		res.Infra = err.Error()
		return res
	}
	defer f.Close()
	max := job.MaxMismatch
	if max == 0 {
		max = 10
	}
	sc := bufio.NewScanner(f)
	sc.Buffer(make([]byte, 1<<20), 1<<26)
	hi, hung := 0, 0
	var mu sync.Mutex
	for sc.Scan() {
		var h History
		if err := json.Unmarshal(sc.Bytes(), &h); err != nil {
			res.Infra = "bad history line: " + err.Error()
			return res
		}
		hi++
		if h.NilRec != res.NilRec {
			res.Skipped++
			continue
		}
		res.Histories++
		add := func(m Mismatch) {
			mu.Lock()
			defer mu.Unlock()
			res.NMismatch++
			if len(res.Mismatches) < max {
				res.Mismatches = append(res.Mismatches, m)
			}
		}
		// each history runs on its own goroutine under a watchdog: an operation
		// that never returns is a deadlock inside generated code (the goroutine
		// is leaked on purpose)
		progress := make(chan int, len(h.H)+2)
		go func(h History, hi int) {
			s := newSession(e, job.Map)
			// zero-value mock reports no calls
			if ok, w, g := s.compareAll(map[string][]int{}, s.afterAll()); !ok {
				add(Mismatch{Hist: hi, Step: 0, Prop: "C04", Field: "zero-value-mock", Want: w, Got: g})
			}
			for si := range h.H {
				o := s.do(h.H[si].Op, h.H[si].M, h.H[si].Mode)
				s.check(hi, si+1, &h.H[si], &o, add)
				progress <- si
			}
			progress <- -1
		}(h, hi)
		step := 0
	wait:
		for {
			select {
			case p := <-progress:
				if p < 0 {
					break wait
				}
				step = p + 1
				mu.Lock()
				res.Steps++
				mu.Unlock()
			case <-time.After(hangLimit(job.Mock)):
				noteHang(job.Mock)
				e := h.H[step]
				p := map[string]string{"call": "C03,C04", "calls": "C04", "reset": "C08", "resetall": "C08"}[e.Op]
				for _, prev := range h.H[:step+1] {
					if prev.Op == "call" && prev.Mode[0] == "nil" {
						p += ",C07"
						break
					}
				}
				add(Mismatch{Hist: hi, Step: step + 1, Prop: "C06," + p, Field: "hang", Want: "operation returns",
					Got: "no return within the time limit (30s for the first blockage of a variant, 2s afterwards)", Op: e.Op + " " + e.M + " " + strings.Join(e.Mode, ":")})
				hung++
				break wait
			}
		}
		if hung >= 1 {
			break // the mock blocks: one witness per (mock, mapping) is enough, every further one costs a timeout
		}
	}
	return res
}

// ---- record mode: random long histories, observed traces for TLC ---------

type TraceEvent struct {
	Trace     int                 `json:"trace"`
	Mock      string              `json:"mock"`
	Stub      bool                `json:"stub"`
	Resets    bool                `json:"resets"`
	NilRec    bool                `json:"nilRec"`
	First     bool                `json:"first"`
	Op        string              `json:"op"`
	M         string              `json:"m"`
	Mode      []string            `json:"mode"`
	Args      string              `json:"args"`  // fingerprint of this call's argument tuple
	Args2     string              `json:"args2"` // same for the nested call, "" if none
	Outcome   string              `json:"outcome"`
	Delegated map[string][]string `json:"delegated"`
	Seen      map[string][]string `json:"seen"`
	Seen2     map[string][]string `json:"seen2"`
	Snap      []string            `json:"snap"`
	After     map[string][]string `json:"after"`
	Stable    bool                `json:"stable"`
	MsgOK     bool                `json:"msgOK"`
	ResOK     bool                `json:"resOK"`
	SameG     bool                `json:"sameG"`
}

func joinRecs(r [][]string) []string {
	out := make([]string, len(r))
	for i := range r {
		out[i] = "(" + strings.Join(r[i], ",") + ")"
	}
	return out
}

func (s *session) absMap(got map[string][][]string) map[string][]string {
	out := map[string][]string{}
	for a := range s.amap {
		out[a] = []string{}
	}
	for rm, recs := range got {
		a, ok := s.rmap[rm]
		if !ok {
			if len(recs) > 0 {
				out["#unmapped"] = append(out["#unmapped"], rm)
			}
			continue
		}
		out[a] = joinRecs(recs)
	}
	return out
}

func runSeqRecord(job *SeqJob) *SeqResult {
	res := &SeqResult{Mock: job.Mock, Map: job.Map}
	e := registry[job.Mock]
	if e == nil {
		res.Infra = "unknown mock " + job.Mock
		return res
	}
	var probeHung bool
	if res.NilRec, probeHung = probeNilRec(e); probeHung {
		res.Traces = 0
		os.WriteFile(job.OutFile, nil, 0o644)
		return res
	}
	out, err := os.Create(job.OutFile)
	if err != nil {
		res.Infra = err.Error()
		return res
	}
	defer out.Close()
	w := bufio.NewWriter(out)
	defer w.Flush()
	enc := json.NewEncoder(w)
	rng := rand.New(rand.NewSource(job.Seed))
	abs := make([]string, 0, len(job.Map))
	for a := range job.Map {
		abs = append(abs, a)
	}
	sort.Strings(abs)
	var wmu sync.Mutex
	for t := 0; t < job.Traces; t++ {
		s := newSession(e, job.Map)
		hungTrace := false
		for i := 0; i < job.Len && !hungTrace; i++ {
			am := abs[rng.Intn(len(abs))]
			op, mode := "call", []string{"-"}
			if job.Script == "growth" {
				// one method called again and again (the record list crosses every capacity it is
				// ever grown to: 1, 2, 4, 8, 16, 32), snapshots taken just before and after
				am = "A"
				mode = []string{"ret"}
				switch i {
				case 3, 10, 11, 20, 21, 38, 39, job.Len - 1:
					op, mode = "calls", []string{"-"}
				}
			}
			switch k := rng.Intn(10); {
			case job.Script == "growth":
			case k < 6:
				modes := [][]string{{"nil"}, {"ret"}, {"ret"}, {"panic"}, {"call", abs[rng.Intn(len(abs))]}}
				if e.Resets {
					modes = append(modes, []string{"resetall"}, []string{"reset", abs[rng.Intn(len(abs))]})
				}
				mode = modes[rng.Intn(len(modes))]
			case k < 8:
				op = "calls"
			case k == 8 && e.Resets:
				op = "reset"
			case k == 9 && e.Resets:
				op, am = "resetall", ""
			default:
				op = "calls"
			}
			// an operation that never returns must not hang the recorder (the replay
			// pipeline reports it); the trace is cut there
			var o stepObs
			doneCh := make(chan struct{})
			go func() {
				o = s.do(op, am, mode)
				close(doneCh)
			}()
			select {
			case <-doneCh:
			case <-time.After(hangLimit(job.Mock)):
				noteHang(job.Mock)
				hungTrace = true
			}
			if hungTrace {
				break
			}
			wmu.Lock()
			ev := TraceEvent{Trace: t, Mock: job.Mock, Stub: e.Stub, Resets: e.Resets, NilRec: res.NilRec, First: i == 0,
				Op: op, M: am, Mode: mode, Snap: []string{}, Stable: s.staleChanged() == "", ResOK: true, MsgOK: true, SameG: true,
				Delegated: s.absMap(nil), Seen: s.absMap(nil), Seen2: s.absMap(nil)}
			if op == "call" {
				ev.Args = "(" + strings.Join(s.m.argFP[o.id], ",") + ")"
				if o.id2 != 0 {
					ev.Args2 = "(" + strings.Join(s.m.argFP[o.id2], ",") + ")"
				}
				ev.Outcome = o.outcome
				switch {
				case mode[0] == "nil" && !e.Stub && (o.outcome == "strpanic" || o.outcome == "errpanic"):
					ev.Outcome = "nilpanic"
					ev.MsgOK = nilMsgOK(e, s.amap[am], o.panicMsg)
				case mode[0] == "nil" && e.Stub && o.outcome == "ret":
					if o.allZero {
						ev.Outcome = "zero"
					} else {
						ev.Outcome = "nonzero"
					}
				case o.outcome == "ret":
					ev.ResOK = o.resOK && len(o.faults) == 0
				}
				d := map[string][][]string{}
				for x, evs := range o.delegated {
					for _, iv := range evs {
						d[x] = append(d[x], iv.FPs)
						if iv.Goid != o.callerG {
							ev.SameG = false
						}
					}
				}
				ev.Delegated = s.absMap(d)
				ev.Seen = s.absMap(o.seen)
				ev.Seen2 = s.absMap(o.seen2)
			}
			if op == "calls" {
				ev.Snap = joinRecs(o.snap)
			}
			ev.After = s.absMap(o.after)
			enc.Encode(&ev)
			res.Events++
			wmu.Unlock()
		}
		if hungTrace {
			break
		}
		res.Traces++
	}
	return res
}
