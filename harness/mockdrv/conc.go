package mockdrv

import (
	"encoding/json"
	"fmt"
	"math/rand"
	"reflect"
	"sort"
	"strings"
	"time"
	"unsafe"
)

// POp is one operation of a scenario program.
type POp struct {
	Op   string   `json:"op"` // call | calls | reset | resetall | setflag
	M    string   `json:"m"`  // abstract method
	Cb   []string `json:"cb"` // call only: ["ret"] ["nil"] ["panic"] ["calls",X] ["call",X] ["reset",X] ["resetall"] ["wait",F]
	Flag string   `json:"flag"`
}

type ConcJob struct {
	Mock     string            `json:"mock"`
	Scenario string            `json:"scenario"`
	Map      map[string]string `json:"map"`
	Progs    [][]POp           `json:"progs"`
	MaxRuns  int               `json:"maxRuns"`
	Seed     int64             `json:"seed"`
	Graph    bool              `json:"graph"`    // record the abstract state graph (MockImpl conformance)
	AllGates bool              `json:"allGates"` // also preempt at locks and records of methods outside the scenario
	Replay   [][]int           `json:"replay"`   // explicit schedules (goroutine ids per step) instead of exploration
}

// AOp is an atomic operation on the abstract object, with its real-time interval.
type AOp struct {
	G   int    `json:"g"`
	K   string `json:"k"` // append | snap | reset | resetall
	M   string `json:"m"`
	ID  int    `json:"id"`
	Inv int    `json:"inv"`
	Res int    `json:"res"`
	Ret []int  `json:"ret"`
	raw [][]string
	rm  string
}

type ConcHistory struct {
	Ops      []AOp    `json:"ops"`
	Deadlock bool     `json:"deadlock"`
	Blocked  []string `json:"blocked"`
	Final    bool     `json:"final"`
}

type ConcResult struct {
	Mock        string         `json:"mock"`
	Scenario    string         `json:"scenario"`
	Runs        int            `json:"runs"`
	Pruned      int            `json:"pruned"`
	States      int            `json:"states"`
	Steps       int            `json:"steps"`
	Exhaustive  bool           `json:"exhaustive"`
	Histories   map[string]int `json:"histories"` // canonical history JSON -> number of runs
	Races       []string       `json:"races"`
	Deadlocks   int            `json:"deadlocks"`
	DeadlockEx  []string       `json:"deadlockEx"`
	Skipped     string         `json:"skipped,omitempty"`
	SlowRuns    int            `json:"slowRuns,omitempty"` // schedules in which a goroutine exceeded the time limit once and completed on repetition
	Stuck       []string       `json:"stuck"`              // a goroutine that never reached its next gate: blocked outside the mock's locks (reproduced twice)
	HeldAtCb    []string       `json:"heldAtCb"`
	Fatal       []string       `json:"fatal"`
	ForeignG    int            `json:"foreignG"`
	Stale       []string       `json:"stale"`
	WrongArgs   []string       `json:"wrongArgs"`
	NilRec      bool           `json:"nilRec"`
	Infra       string         `json:"infra,omitempty"`
	GraphStates []string       `json:"graphStates,omitempty"`
	GraphEdges  []string       `json:"graphEdges,omitempty"`
	graph       map[string]bool
	edges       map[string]bool
}

type concRunner struct {
	e         *Entry
	job       *ConcJob
	amap      map[string]string
	rmap      map[string]string
	nilM      map[string]bool // real methods whose function stays nil
	nilRec    bool
	addedKeys []string // state keys the current run added to the visited set
	res       *ConcResult

	// per run
	mv        reflect.Value
	s         *Sched
	gen       *gen
	fpID      map[string]map[string]int // real method -> record fingerprint -> id
	anon      map[string]bool
	ops       []*AOp
	pending   map[*G][]*AOp
	realG     map[*G]int64
	heldCb    map[string]bool
	argsOf    map[int]string // call id -> fingerprint of the arguments passed
	wrongArgs map[string]bool
	foreign   int
	runFat    []string
	snaps     []held
	stale     map[string]bool
}

func recKey(fps []string) string { return "(" + strings.Join(fps, ",") + ")" }

func newConcRunner(e *Entry, job *ConcJob) *concRunner {
	r := &concRunner{e: e, job: job, amap: job.Map, rmap: map[string]string{}, nilM: map[string]bool{}}
	for a, x := range job.Map {
		r.rmap[x] = a
	}
	for _, p := range job.Progs {
		for _, op := range p {
			if op.Op == "call" && len(op.Cb) > 0 && op.Cb[0] == "nil" {
				r.nilM[r.amap[op.M]] = true
			}
		}
	}
	r.nilRec, _ = probeNilRec(e)
	r.res = &ConcResult{Mock: job.Mock, Scenario: job.Scenario, Histories: map[string]int{}, NilRec: r.nilRec, graph: map[string]bool{}, edges: map[string]bool{}}
	return r
}

// callsField reads mock.calls.<method> directly (no locks, everything parked).
func (r *concRunner) callsField(x string) (reflect.Value, bool) {
	c := r.mv.Elem().FieldByName("calls")
	if !c.IsValid() || c.Kind() != reflect.Struct {
		return reflect.Value{}, false
	}
	f := c.FieldByName(x)
	if !f.IsValid() || f.Kind() != reflect.Slice {
		return reflect.Value{}, false
	}
	return f, true
}

var memFallback int

// mem is the abstract memory state: per mapped method the recorded ids.
func (r *concRunner) mem() string {
	var b strings.Builder
	for _, a := range []string{"A", "B", "C"} {
		x, ok := r.amap[a]
		if !ok {
			continue
		}
		f, ok := r.callsField(x)
		if !ok {
			memFallback++
			fmt.Fprintf(&b, "%s?%d", a, memFallback)
			continue
		}
		b.WriteString(a)
		b.WriteString("[")
		recs := recordsFP(f)
		for i, rec := range recs {
			if i > 0 {
				b.WriteString(" ")
			}
			if id, ok := r.fpID[x][recKey(rec)]; ok {
				fmt.Fprintf(&b, "%d", id)
			} else {
				b.WriteString("?")
			}
		}
		fmt.Fprintf(&b, "]%d:%d", f.Len(), f.Cap())
	}
	return b.String()
}

func (r *concRunner) lockName(p unsafe.Pointer) string {
	base := r.mv.Pointer()
	t := r.mv.Elem().Type()
	off := uintptr(p) - base
	for i := 0; i < t.NumField(); i++ {
		f := t.Field(i)
		if f.Offset == off && (strings.Contains(f.Type.String(), "Mutex")) {
			n := f.Name
			if strings.HasPrefix(n, "lock") {
				if a, ok := r.rmap[strings.TrimPrefix(n, "lock")]; ok {
					return "lock" + a
				}
			}
			return n
		}
	}
	return ""
}

func (r *concRunner) setup() error {
	r.mv = reflect.ValueOf(r.e.New())
	r.gen = &gen{}
	r.fpID = map[string]map[string]int{}
	r.anon = map[string]bool{}
	r.ops = nil
	r.pending = map[*G][]*AOp{}
	r.realG = map[*G]int64{}
	r.heldCb = map[string]bool{}
	r.argsOf = map[int]string{}
	r.wrongArgs = map[string]bool{}
	r.foreign = 0
	r.runFat = nil
	r.snaps = nil
	r.stale = map[string]bool{}
	s := &Sched{toSched: make(chan *G), locks: map[unsafe.Pointer]*lockState{}, flags: map[string]bool{}, races: map[string]bool{}}
	s.names = r.lockName
	s.mem = r.mem
	s.trace = r.job.Graph
	if !r.job.AllGates {
		s.focusLock = func(l *lockState) bool {
			if !strings.HasPrefix(l.name, "lock") {
				return true
			}
			return l.name == "lockA" || l.name == "lockB" || l.name == "lockC"
		}
		type rng struct{ lo, hi uintptr }
		var rs []rng
		for _, x := range r.amap {
			if f, ok := r.callsField(x); ok && f.CanAddr() {
				rs = append(rs, rng{f.UnsafeAddr(), f.UnsafeAddr() + f.Type().Size()})
			}
		}
		s.focusAddr = func(addr, size uintptr) bool {
			if len(rs) == 0 {
				return true
			}
			for _, x := range rs {
				if addr < x.hi && x.lo < addr+size {
					return true
				}
			}
			return false
		}
	}
	r.s = s
	theSched = s
	for _, x := range r.e.Methods {
		f := r.mv.Elem().FieldByName(x + "Func")
		if !f.IsValid() || f.Kind() != reflect.Func {
			return fmt.Errorf("mock %s has no func field %sFunc", r.mv.Type(), x)
		}
		if r.nilM[x] {
			f.Set(reflect.Zero(f.Type()))
			continue
		}
		f.Set(reflect.MakeFunc(f.Type(), r.impl(x, f.Type())))
	}
	for i, p := range r.job.Progs {
		g := &G{id: i + 1, resume: make(chan struct{}), prog: p, at: gate{kind: gStart}}
		s.gs = append(s.gs, g)
		go r.body(g)
	}
	return nil
}

func (r *concRunner) body(g *G) {
	defer func() {
		if p := recover(); p != nil {
			if _, ok := p.(abortSentinel); !ok {
				r.runFat = append(r.runFat, fmt.Sprintf("g%d: unexpected panic outside a call: %v", g.id, p))
			}
		}
		g.done = true
		r.s.toSched <- g
	}()
	<-g.resume
	if r.s.abort {
		return
	}
	r.realG[g] = goid()
	g.goid = r.realG[g]
	for g.pc = 0; g.pc < len(g.prog); g.pc++ {
		op := &g.prog[g.pc]
		g.curOp = op
		r.s.park(gate{kind: gInv})
		r.exec(g, op, g.id*100+g.pc*10, r.s.seq)
	}
}

func (r *concRunner) regArgs(x string, id int, args []reflect.Value) {
	if r.fpID[x] == nil {
		r.fpID[x] = map[string]int{}
	}
	k := recKey(fpList(args))
	r.argsOf[id] = k
	if old, dup := r.fpID[x][k]; dup && old != id {
		r.anon[x] = true
		return
	}
	r.fpID[x][k] = id
}

func (r *concRunner) callMethod(name string, args []reflect.Value, variadic bool) (out []reflect.Value, outcome string) {
	mv := r.mv.MethodByName(name)
	if !mv.IsValid() {
		r.runFat = append(r.runFat, "missing method "+name)
		return nil, "nomethod"
	}
	defer func() {
		if p := recover(); p != nil {
			if _, ok := p.(abortSentinel); ok {
				panic(p)
			}
			outcome = "panic"
		}
	}()
	if variadic {
		return mv.CallSlice(args), "ret"
	}
	return mv.Call(args), "ret"
}

// exec performs one (top-level or nested) operation on behalf of g.
func (r *concRunner) exec(g *G, op *POp, id int, inv int) {
	x := r.amap[op.M]
	switch op.Op {
	case "call":
		mv := r.mv.MethodByName(x)
		if !mv.IsValid() {
			r.runFat = append(r.runFat, "missing method "+x)
			return
		}
		mt := mv.Type()
		args := make([]reflect.Value, mt.NumIn())
		for i := range args {
			args[i] = r.gen.Value(mt.In(i), 0)
		}
		r.regArgs(x, id, args)
		a := &AOp{G: g.id, K: "append", M: op.M, ID: id, Inv: inv, rm: x}
		r.pending[g] = append(r.pending[g], a)
		savedDepth := g.depth
		_, outcome := r.callMethod(x, args, mt.IsVariadic())
		g.depth = savedDepth
		r.pending[g] = r.pending[g][:len(r.pending[g])-1]
		if a.Res == 0 {
			r.s.log(g, "res", "", "", nil)
			a.Res = r.s.seq
		}
		if r.nilM[x] && !r.e.Stub && !r.nilRec && outcome == "panic" {
			// a default-mode call of a nil function may leave no record (open in the properties)
			return
		}
		r.ops = append(r.ops, a)
	case "calls":
		a := &AOp{G: g.id, K: "snap", M: op.M, Inv: inv, rm: x}
		out, outcome := r.callMethod(x+"Calls", nil, false)
		r.s.log(g, "res", "", "", nil)
		a.Res = r.s.seq
		if outcome == "ret" && len(out) == 1 && out[0].Kind() == reflect.Slice {
			a.raw = recordsFP(out[0])
			r.snaps = append(r.snaps, held{out[0], a.raw, fmt.Sprintf("%sCalls() of g%d op %d", op.M, g.id, g.pc)})
		} else {
			r.runFat = append(r.runFat, x+"Calls() "+outcome)
		}
		r.ops = append(r.ops, a)
	case "reset":
		a := &AOp{G: g.id, K: "reset", M: op.M, Inv: inv, rm: x}
		if _, outcome := r.callMethod("Reset"+x+"Calls", nil, false); outcome != "ret" {
			r.runFat = append(r.runFat, "Reset"+x+"Calls() "+outcome)
		}
		r.s.log(g, "res", "", "", nil)
		a.Res = r.s.seq
		r.ops = append(r.ops, a)
	case "resetall":
		a := &AOp{G: g.id, K: "resetall", Inv: inv}
		if _, outcome := r.callMethod("ResetCalls", nil, false); outcome != "ret" {
			r.runFat = append(r.runFat, "ResetCalls() "+outcome)
		}
		r.s.log(g, "res", "", "", nil)
		a.Res = r.s.seq
		r.ops = append(r.ops, a)
	case "setflag":
		r.s.flags[op.Flag] = true
	}
}

type concToken struct{}

func (r *concRunner) impl(x string, ft reflect.Type) func([]reflect.Value) []reflect.Value {
	return func(args []reflect.Value) []reflect.Value {
		s := r.s
		g := s.cur
		held := s.heldBy(g)
		s.log(g, "cbenter", "", x, held)
		if pend := r.pending[g]; len(pend) > 0 {
			if top := pend[len(pend)-1]; top.rm == x {
				if top.Res == 0 {
					top.Res = s.seq
				}
				// C03: the function gets the very arguments of the call it serves
				if got := recKey(fpList(args)); got != r.argsOf[top.ID] {
					r.wrongArgs[fmt.Sprintf("%sFunc serving call %d of g%d received %s, the caller passed %s", x, top.ID, g.id, got, r.argsOf[top.ID])] = true
				}
			}
		}
		for _, h := range held {
			r.heldCb[fmt.Sprintf("%s held by g%d when %sFunc starts (op %d)", h, g.id, x, g.pc)] = true
		}
		if gid := goid(); gid != r.realG[g] {
			r.foreign++
		}
		results := make([]reflect.Value, ft.NumOut())
		for i := range results {
			results[i] = r.gen.Value(ft.Out(i), 0)
		}
		g.depth++
		defer func() { g.depth-- }()
		mode := []string{"ret"}
		if g.depth == 1 && g.curOp != nil && len(g.curOp.Cb) > 0 {
			mode = g.curOp.Cb
		}
		nid := g.id*100 + g.pc*10 + 1
		switch mode[0] {
		case "calls":
			s.log(g, "ninv", "", "", nil)
			r.exec(g, &POp{Op: "calls", M: mode[1]}, nid, s.seq)
		case "call":
			s.log(g, "ninv", "", "", nil)
			r.exec(g, &POp{Op: "call", M: mode[1], Cb: []string{"ret"}}, nid, s.seq)
		case "reset":
			s.log(g, "ninv", "", "", nil)
			r.exec(g, &POp{Op: "reset", M: mode[1]}, nid, s.seq)
		case "resetall":
			s.log(g, "ninv", "", "", nil)
			r.exec(g, &POp{Op: "resetall"}, nid, s.seq)
		case "wait":
			s.park(gate{kind: gWait, flag: mode[1]})
		case "panic":
			panic(concToken{})
		}
		s.log(g, "cbexit", "", x, nil)
		return results
	}
}

// stuckLimit: a logical goroutine executes a handful of instructions between two
// gates; one that has not parked again after this long is blocked on something
// the scheduler does not control (a WaitGroup, a channel, a busy loop).
const stuckLimit = 6 * time.Second

type stuckError struct{ what string }

func (e *stuckError) Error() string { return e.what }

// resumeG lets g run to its next gate; false if it never gets there.
func (r *concRunner) resumeG(g *G) bool {
	g.resume <- struct{}{}
	select {
	case <-r.s.toSched:
		return true
	case <-time.After(stuckLimit):
		g.stuck = true
		abandon(g.goid)
		return false
	}
}

func (r *concRunner) stuckAt(g *G) string {
	op := "?"
	if g.curOp != nil {
		op = g.curOp.Op + " " + g.curOp.M
		if len(g.curOp.Cb) > 0 {
			op += " [" + strings.Join(g.curOp.Cb, " ") + "]"
		}
	}
	return fmt.Sprintf("goroutine %d in operation %q passed gate %s and never reached another one (%s): it waits for something that is not one of the mock's locks", g.id, op, gateNames[g.at.kind], stuckLimit)
}

// abortRun unwinds every logical goroutine that is still parked.
func (r *concRunner) abortRun() {
	s := r.s
	s.abort = true
	for _, g := range s.gs {
		if g.stuck {
			continue // it will never park again; it is abandoned with its mock
		}
		if !g.done {
			g.resume <- struct{}{}
			for {
				d := <-s.toSched
				if d == g && g.done {
					break
				}
			}
		}
	}
	theSched = nil
}

// history converts the run's operations into the abstract history.
func (r *concRunner) history(deadlock bool, blocked []string) string {
	ops := make([]AOp, 0, len(r.ops))
	for _, a := range r.ops {
		c := *a
		c.raw, c.rm = nil, ""
		c.Ret = []int{}
		if a.K == "append" && r.anon[a.rm] {
			c.ID = 0
		}
		if a.K == "snap" {
			for _, rec := range a.raw {
				switch id, ok := r.fpID[a.rm][recKey(rec)]; {
				case r.anon[a.rm] && ok:
					c.Ret = append(c.Ret, 0)
				case ok:
					c.Ret = append(c.Ret, id)
				default:
					c.Ret = append(c.Ret, -1) // a record that equals no call's arguments (torn / foreign)
				}
			}
		}
		ops = append(ops, c)
	}
	// ranks instead of raw sequence numbers
	var pts []int
	for _, o := range ops {
		pts = append(pts, o.Inv, o.Res)
	}
	sort.Ints(pts)
	rank := map[int]int{}
	for _, p := range pts {
		if _, ok := rank[p]; !ok {
			rank[p] = len(rank) + 1
		}
	}
	for i := range ops {
		ops[i].Inv, ops[i].Res = rank[ops[i].Inv], rank[ops[i].Res]
	}
	sort.SliceStable(ops, func(i, j int) bool { return ops[i].Inv < ops[j].Inv })
	if blocked == nil {
		blocked = []string{}
	}
	b, _ := json.Marshal(ConcHistory{Ops: ops, Deadlock: deadlock, Blocked: blocked, Final: !deadlock})
	return string(b)
}

// finalSnapshots appends, after quiescence, one snapshot of every mapped method.
func (r *concRunner) finalSnapshots() {
	theSched = nil // plain calls, nobody else runs
	for _, a := range []string{"A", "B", "C"} {
		x, ok := r.amap[a]
		if !ok {
			continue
		}
		r.s.seq++
		op := &AOp{G: 0, K: "snap", M: a, Inv: r.s.seq, rm: x}
		out, outcome := r.callMethod(x+"Calls", nil, false)
		r.s.seq++
		op.Res = r.s.seq
		if outcome == "ret" && len(out) == 1 && out[0].Kind() == reflect.Slice {
			op.raw = recordsFP(out[0])
		}
		r.ops = append(r.ops, op)
	}
}

type dfsFrame struct{ chosen, n int }

// runOnce executes one schedule. choices[i] indexes the enabled set at step
// i; beyond the prefix the first enabled goroutine runs. Returns the number
// of enabled goroutines at every step.
func (r *concRunner) runOnce(choices []int, visited map[string]bool, byID []int) (ns []int, pruned bool, err error) {
	if err := r.setup(); err != nil {
		return nil, false, err
	}
	r.addedKeys = r.addedKeys[:0]
	s := r.s
	prevProj, prevG := "", 0
	for step := 0; ; step++ {
		s.checkRaces()
		if r.job.Graph {
			p := r.projection()
			r.res.graph[p] = true
			if prevG != 0 {
				r.res.edges[fmt.Sprintf("%s --g%d--> %s", prevProj, prevG, p)] = true
			}
			prevProj = p
		}
		var en []*G
		alldone := true
		for _, g := range s.gs {
			if !g.done {
				alldone = false
			}
			if s.enabled(g) {
				en = append(en, g)
			}
		}
		if s.fatal != "" {
			r.runFat = append(r.runFat, s.fatal)
			s.fatal = ""
			r.flush(false, nil)
			r.abortRun()
			return ns, false, nil
		}
		if alldone {
			theSched = nil
			r.finalSnapshots()
			r.flush(false, nil)
			return ns, false, nil
		}
		if len(en) == 0 {
			var blocked []string
			for _, g := range s.gs {
				if !g.done {
					ln := ""
					if g.at.lock != nil {
						ln = g.at.lock.name
					}
					blocked = append(blocked, fmt.Sprintf("g%d blocked at %s %s%s (op %d, holds %v)", g.id, gateNames[g.at.kind], ln, g.at.flag, g.pc, s.heldBy(g)))
				}
			}
			r.flush(true, blocked)
			r.abortRun()
			return ns, false, nil
		}
		var key string
		if visited != nil {
			key = s.stateKey()
		}
		if visited != nil && step >= len(choices) && byID == nil {
			if visited[key] {
				r.abortRun()
				return ns, true, nil
			}
			visited[key] = true
			r.addedKeys = append(r.addedKeys, key)
		}
		var g *G
		switch {
		case byID != nil:
			if step >= len(byID) {
				g = en[0]
			} else {
				for _, c := range en {
					if c.id == byID[step] {
						g = c
					}
				}
				if g == nil {
					r.runFat = append(r.runFat, fmt.Sprintf("replay: goroutine %d not enabled at step %d", byID[step], step))
					r.abortRun()
					return ns, false, nil
				}
			}
		case step < len(choices):
			if choices[step] >= len(en) {
				r.abortRun()
				return ns, false, fmt.Errorf("nondeterministic scenario: choice %d of %d at step %d", choices[step], len(en), step)
			}
			g = en[choices[step]]
		default:
			g = en[0]
		}
		ns = append(ns, len(en))
		prevG = g.id
		s.apply(g)
		r.res.Steps++
		s.cur = g
		if !r.resumeG(g) {
			what := r.stuckAt(g)
			r.abortRun()
			// the states this run marked as visited were not explored from: forget them
			for _, k := range r.addedKeys {
				delete(visited, k)
			}
			return ns, false, &stuckError{what}
		}
	}
}

// flush folds one finished run into the result.
func (r *concRunner) flush(deadlock bool, blocked []string) {
	res := r.res
	// a slice an accessor returned must never change afterwards (C04), also
	// when other goroutines reset and call meanwhile
	for _, h := range r.snaps {
		if now := recordsFP(h.v); !equalRecs(now, h.orig) {
			k := fmt.Sprintf("slice returned by %s changed after it was returned (%d -> %d records or different contents)", h.what, len(h.orig), len(now))
			if len(res.Stale) < 10 && !contains(res.Stale, k) {
				res.Stale = append(res.Stale, k)
			}
		}
	}
	for k := range r.s.races {
		if len(res.Races) < 20 && !contains(res.Races, k) {
			res.Races = append(res.Races, k)
		}
	}
	for k := range r.heldCb {
		if len(res.HeldAtCb) < 20 && !contains(res.HeldAtCb, k) {
			res.HeldAtCb = append(res.HeldAtCb, k)
		}
	}
	for _, f := range r.runFat {
		if len(res.Fatal) < 20 && !contains(res.Fatal, f) {
			res.Fatal = append(res.Fatal, f)
		}
	}
	for k := range r.wrongArgs {
		if len(res.WrongArgs) < 10 && !contains(res.WrongArgs, k) {
			res.WrongArgs = append(res.WrongArgs, k)
		}
	}
	res.ForeignG += r.foreign
	if deadlock {
		res.Deadlocks++
		if len(res.DeadlockEx) < 3 {
			res.DeadlockEx = append(res.DeadlockEx, strings.Join(blocked, "; "))
		}
	}
	res.Histories[r.history(deadlock, blocked)]++
}

func contains(l []string, s string) bool {
	for _, x := range l {
		if x == s {
			return true
		}
	}
	return false
}

func runConc(job *ConcJob) *ConcResult {
	e := registry[job.Mock]
	if e == nil {
		return &ConcResult{Mock: job.Mock, Scenario: job.Scenario, Infra: "unknown mock " + job.Mock}
	}
	r := newConcRunner(e, job)
	res := r.res
	max := job.MaxRuns
	if max == 0 {
		max = 20000
	}
	if len(job.Replay) > 0 {
		for _, sch := range job.Replay {
			if _, _, err := r.runOnce(nil, nil, sch); err != nil {
				res.Infra = err.Error()
				return res
			}
			r.collectRaces()
			res.Runs++
		}
		return res
	}
	visited := map[string]bool{}
	var stack []dfsFrame
	res.Exhaustive = true
	for {
		choices := make([]int, len(stack))
		for i, f := range stack {
			choices[i] = f.chosen
		}
		ns, pruned, err := r.runOnce(choices, visited, nil)
		if se, ok := err.(*stuckError); ok {
			// the same schedule again on a fresh mock, up to twice: a verdict needs the blockage
			// every time; a run that completes shows the first one was the machine (a logical
			// goroutine waiting seconds for a processor), and exploration continues with it
			stuckAgain := 0
			for attempt := 0; attempt < 2; attempt++ {
				ns, pruned, err = r.runOnce(choices, visited, nil)
				if _, again := err.(*stuckError); again {
					stuckAgain++
					continue
				}
				break
			}
			if stuckAgain == 2 {
				res.Stuck = append(res.Stuck, se.what)
				res.Exhaustive = false
				return res
			}
			res.SlowRuns++
		}
		if err != nil {
			res.Infra = err.Error()
			return res
		}
		r.collectRaces()
		res.Runs++
		if pruned {
			res.Pruned++
		}
		for i := len(stack); i < len(ns); i++ {
			stack = append(stack, dfsFrame{0, ns[i]})
		}
		for len(stack) > 0 && stack[len(stack)-1].chosen+1 >= stack[len(stack)-1].n {
			stack = stack[:len(stack)-1]
		}
		if len(stack) == 0 {
			break
		}
		stack[len(stack)-1].chosen++
		if res.Runs >= max {
			res.Exhaustive = false
			break
		}
	}
	res.States = len(visited)
	for k := range res.graph {
		res.GraphStates = append(res.GraphStates, k)
	}
	sort.Strings(res.GraphStates)
	for k := range res.edges {
		res.GraphEdges = append(res.GraphEdges, k)
	}
	sort.Strings(res.GraphEdges)
	if !res.Exhaustive {
		// continue with random schedules from the seed
		rng := rand.New(rand.NewSource(job.Seed))
		for i := 0; i < max/4; i++ {
			ch := make([]int, 64)
			for j := range ch {
				ch[j] = rng.Intn(3)
			}
			r.runRandom(ch)
			res.Runs++
		}
	}
	return res
}

func (r *concRunner) collectRaces() {
	for k := range r.s.races {
		if len(r.res.Races) < 20 && !contains(r.res.Races, k) {
			r.res.Races = append(r.res.Races, k)
		}
	}
}

// runRandom: like runOnce with choices taken modulo the enabled count.
func (r *concRunner) runRandom(ch []int) {
	if err := r.setup(); err != nil {
		return
	}
	s := r.s
	for step := 0; ; step++ {
		s.checkRaces()
		var en []*G
		alldone := true
		for _, g := range s.gs {
			if !g.done {
				alldone = false
			}
			if s.enabled(g) {
				en = append(en, g)
			}
		}
		if alldone {
			theSched = nil
			r.finalSnapshots()
			r.flush(false, nil)
			return
		}
		if len(en) == 0 || s.fatal != "" {
			if s.fatal != "" {
				r.runFat = append(r.runFat, s.fatal)
			}
			r.flush(len(en) == 0, []string{"(random schedule)"})
			r.abortRun()
			return
		}
		g := en[ch[step%len(ch)]%len(en)]
		s.apply(g)
		s.cur = g
		if !r.resumeG(g) {
			r.abortRun()
			return
		}
	}
}

func init() {
	extraModes["sched"] = func(args []string) {
		// one scenario at a time: the scheduler is a process-wide singleton
		stuckSeen := map[string]int{}
		runJobs(args[0], 1, func(raw []byte) any {
			var j ConcJob
			if err := json.Unmarshal(raw, &j); err != nil {
				return &ConcResult{Infra: err.Error()}
			}
			// mocks of one variant (flag combination and destination) come from one run of the
			// template: after two reproduced blockages in a variant the witnesses are reported and
			// further scenarios on that variant would only spend the time limits again
			variant := j.Mock
			if i := strings.Index(variant, "/"); i >= 0 {
				variant = variant[:i]
			}
			if stuckSeen[variant] >= 2 {
				return &ConcResult{Mock: j.Mock, Scenario: j.Scenario, Skipped: "variant blocked in two earlier scenarios", Histories: map[string]int{}}
			}
			res := runConc(&j)
			if len(res.Stuck) > 0 {
				stuckSeen[variant]++
			}
			return res
		})
	}
}

// projection is the abstract state compared with MockImpl's: recorded ids,
// lock state per mapped method, position of every goroutine in its
// straight-line gate program, flags. Canonical text, see rt.canonState.
func (r *concRunner) projection() string {
	var b strings.Builder
	abs := []string{}
	for a := range r.amap {
		abs = append(abs, a)
	}
	sort.Strings(abs)
	for _, a := range abs {
		x := r.amap[a]
		fmt.Fprintf(&b, "%s=[", a)
		if f, ok := r.callsField(x); ok {
			for i, rec := range recordsFP(f) {
				if i > 0 {
					b.WriteString(",")
				}
				if id, ok := r.fpID[x][recKey(rec)]; ok && !r.anon[x] {
					fmt.Fprintf(&b, "%d", id)
				} else {
					b.WriteString("?")
				}
			}
		} else {
			b.WriteString("!")
		}
		w, an := 0, 0
		rd := make([]int, len(r.s.gs))
		for _, l := range r.s.locks {
			if l.name != "lock"+a {
				continue
			}
			if l.writer != nil {
				w = l.writer.id
			}
			if l.announced != nil {
				an = l.announced.id
			}
			for g, c := range l.readers {
				rd[g.id-1] = c
			}
		}
		fmt.Fprintf(&b, "] w%d a%d r%v; ", w, an, rd)
	}
	b.WriteString("pos=")
	for _, g := range r.s.gs {
		fmt.Fprintf(&b, "%d,", g.passed+1)
	}
	fl := []string{}
	for f, v := range r.s.flags {
		if v {
			fl = append(fl, f)
		}
	}
	sort.Strings(fl)
	b.WriteString(" flags=" + strings.Join(fl, ","))
	return b.String()
}
