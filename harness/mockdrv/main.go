package mockdrv

import (
	"bufio"
	"encoding/json"
	"fmt"
	"os"
	"runtime"
	"sort"
	"sync"
	"time"
)

// Main is the entry point of every driver binary: `drv <mode> <jobs.ndjson>`;
// results go to stdout as NDJSON, in job order.
func Main() {
	if len(os.Args) < 2 {
		fmt.Fprintln(os.Stderr, "usage: drv list | seq <jobs> | sched <jobs> | race <jobs>")
		os.Exit(2)
	}
	// a timer keeps the runtime's "all goroutines are asleep" detector quiet:
	// a mock that blocks forever is something the driver reports, not a crash
	go func() {
		for {
			time.Sleep(time.Hour)
		}
	}()
	switch os.Args[1] {
	case "list":
		names := make([]string, 0, len(registry))
		for n := range registry {
			names = append(names, n)
		}
		sort.Strings(names)
		enc := json.NewEncoder(os.Stdout)
		for _, n := range names {
			e := registry[n]
			m := NewM(e)
			info := map[string]any{"name": n, "methods": e.Methods, "stub": e.Stub, "resets": e.Resets,
				"type": m.V.Type().String(), "hasResetCalls": m.HasMethod("ResetCalls")}
			rs := map[string]bool{}
			for _, x := range e.Methods {
				rs[x] = m.HasMethod("Reset" + x + "Calls")
			}
			info["hasReset"] = rs
			enc.Encode(info)
		}
	case "seq":
		runJobs(os.Args[2], runtime.NumCPU(), func(raw []byte) any {
			var j SeqJob
			if err := json.Unmarshal(raw, &j); err != nil {
				return &SeqResult{Infra: err.Error()}
			}
			if j.Kind == "record" {
				return runSeqRecord(&j)
			}
			return runSeqReplay(&j)
		})
	default:
		if extraModes != nil {
			if f := extraModes[os.Args[1]]; f != nil {
				f(os.Args[2:])
				return
			}
		}
		fmt.Fprintln(os.Stderr, "unknown mode", os.Args[1])
		os.Exit(2)
	}
}

var extraModes = map[string]func(args []string){}

func runJobs(file string, par int, run func(raw []byte) any) {
	f, err := os.Open(file)
	if err != nil {
		fmt.Fprintln(os.Stderr, err)
		os.Exit(2)
	}
	defer f.Close()
	var jobs [][]byte
	sc := bufio.NewScanner(f)
	sc.Buffer(make([]byte, 1<<20), 1<<26)
	for sc.Scan() {
		if len(sc.Bytes()) > 0 {
			jobs = append(jobs, append([]byte(nil), sc.Bytes()...))
		}
	}
	results := make([]any, len(jobs))
	var wg sync.WaitGroup
	sem := make(chan struct{}, par)
	for i := range jobs {
		wg.Add(1)
		sem <- struct{}{}
		go func(i int) {
			defer wg.Done()
			defer func() { <-sem }()
			defer func() {
				if p := recover(); p != nil {
					buf := make([]byte, 4096)
					n := runtime.Stack(buf, false)
					results[i] = map[string]any{"infra": fmt.Sprintf("driver panic: %v\n%s", p, buf[:n])}
				}
			}()
			results[i] = run(jobs[i])
		}(i)
	}
	wg.Wait()
	w := bufio.NewWriter(os.Stdout)
	enc := json.NewEncoder(w)
	for _, r := range results {
		enc.Encode(r)
	}
	w.Flush()
}
