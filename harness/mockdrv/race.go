package mockdrv

import (
	"encoding/json"
	"fmt"
	"reflect"
	"sync"
	"time"
)

// Race mode (race build: untouched generated code, real sync, -race): real
// goroutines run the scenario programs freely, many times. The driver keeps
// no shared state of its own, so every report of the race detector that has a
// generated file in a stack is about generated code.

type RaceJob struct {
	Mock     string            `json:"mock"`
	Scenario string            `json:"scenario"`
	Map      map[string]string `json:"map"`
	Progs    [][]POp           `json:"progs"`
	Iters    int               `json:"iters"`
}

type RaceResult struct {
	Mock     string `json:"mock"`
	Scenario string `json:"scenario"`
	Iters    int    `json:"iters"`
	Hung     bool   `json:"hung"` // the goroutines of one iteration did not finish within the limit
	Lost     int    `json:"lost"` // iterations whose quiescent record count differs from the number of calls (scenarios without resets)
	Infra    string `json:"infra,omitempty"`
}

func runRace(job *RaceJob) *RaceResult {
	res := &RaceResult{Mock: job.Mock, Scenario: job.Scenario}
	e := registry[job.Mock]
	if e == nil {
		res.Infra = "unknown mock"
		return res
	}
	hasReset := false
	calls := map[string]int{}
	for _, p := range job.Progs {
		for _, op := range p {
			switch op.Op {
			case "reset", "resetall":
				hasReset = true
			case "call":
				calls[op.M]++
				if len(op.Cb) > 0 {
					switch op.Cb[0] {
					case "reset", "resetall":
						hasReset = true
					case "call":
						calls[op.Cb[1]]++
					case "nil":
						if !e.Stub {
							hasReset = true // count not determined
						}
					case "wait":
						res.Infra = "wait scenarios are not run in race mode"
						return res
					}
				}
			}
		}
	}
	for it := 0; it < job.Iters; it++ {
		mv := reflect.ValueOf(e.New())
		for _, x := range e.Methods {
			f := mv.Elem().FieldByName(x + "Func")
			nilF := false
			for _, p := range job.Progs {
				for _, op := range p {
					if op.Op == "call" && job.Map[op.M] == x && len(op.Cb) > 0 && op.Cb[0] == "nil" {
						nilF = true
					}
				}
			}
			if nilF {
				continue
			}
			ft := f.Type()
			f.Set(reflect.MakeFunc(ft, func(args []reflect.Value) []reflect.Value {
				out := make([]reflect.Value, ft.NumOut())
				for i := range out {
					out[i] = reflect.Zero(ft.Out(i))
				}
				return out
			}))
		}
		var wg sync.WaitGroup
		start := make(chan struct{})
		for gi, p := range job.Progs {
			wg.Add(1)
			go func(gi int, p []POp) {
				defer wg.Done()
				g := &gen{ctr: gi * 100000}
				<-start
				for _, op := range p {
					raceExec(mv, job.Map, g, op, 0)
				}
			}(gi, p)
		}
		close(start)
		finished := make(chan struct{})
		go func() { wg.Wait(); close(finished) }()
		select {
		case <-finished:
		case <-time.After(20 * time.Second):
			// real goroutines, real sync: this is a hang of generated code (C06's business);
			// the blocked goroutines are left behind with their mock
			res.Hung = true
			return res
		}
		if !hasReset {
			for a, n := range calls {
				out := mv.MethodByName(job.Map[a] + "Calls").Call(nil)
				if out[0].Len() != n {
					res.Lost++
				}
			}
		}
		res.Iters++
	}
	return res
}

func raceExec(mv reflect.Value, amap map[string]string, g *gen, op POp, depth int) {
	x := amap[op.M]
	defer func() { recover() }()
	switch op.Op {
	case "call":
		m := mv.MethodByName(x)
		mt := m.Type()
		args := make([]reflect.Value, mt.NumIn())
		for i := range args {
			args[i] = g.Value(mt.In(i), 0)
		}
		if mt.IsVariadic() {
			m.CallSlice(args)
		} else {
			m.Call(args)
		}
		// callbacks in race mode are performed by the caller right after the call
		// (the installed functions are stateless); nested operations still overlap
		// with the other goroutines
		if depth == 0 && len(op.Cb) > 0 {
			switch op.Cb[0] {
			case "calls":
				raceExec(mv, amap, g, POp{Op: "calls", M: op.Cb[1]}, 1)
			case "call":
				raceExec(mv, amap, g, POp{Op: "call", M: op.Cb[1]}, 1)
			case "reset":
				raceExec(mv, amap, g, POp{Op: "reset", M: op.Cb[1]}, 1)
			case "resetall":
				raceExec(mv, amap, g, POp{Op: "resetall"}, 1)
			}
		}
	case "calls":
		out := mv.MethodByName(x + "Calls").Call(nil)
		// read what the accessor returned, as a user would
		s := out[0]
		for i := 0; i < s.Len(); i++ {
			_ = Fingerprint(s.Index(i))
		}
	case "reset":
		mv.MethodByName("Reset" + x + "Calls").Call(nil)
	case "resetall":
		mv.MethodByName("ResetCalls").Call(nil)
	}
}

func init() {
	extraModes["race"] = func(args []string) {
		runJobs(args[0], 4, func(raw []byte) any {
			var j RaceJob
			if err := json.Unmarshal(raw, &j); err != nil {
				return &RaceResult{Infra: err.Error()}
			}
			r := runRace(&j)
			if r.Infra != "" {
				r.Infra = fmt.Sprintf("%s/%s: %s", j.Mock, j.Scenario, r.Infra)
			}
			return r
		})
	}
}
