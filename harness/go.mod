module verif

go 1.24

require (
	github.com/matryer/moq v0.0.0
	golang.org/x/tools v0.30.0
)

require (
	golang.org/x/mod v0.23.0 // indirect
	golang.org/x/sync v0.11.0 // indirect
)

replace github.com/matryer/moq => /repo
