#!/bin/sh
# tools/confirm_mutant.sh <dir with patch.diff, demo.sh>
# Confirms a seeded change in a fresh scratch worktree of /repo: demo passes on
# the clean tree, patch applies, the repository's tests keep their baseline
# result, demo fails with the patch. Removes the worktree afterwards.
set -u
D="$(cd "$1" && pwd)"
WT="$(mktemp -d /tmp/confirm-XXXXXX)"; rmdir "$WT"
TC=/root/go/pkg/mod/golang.org/toolchain@v0.0.1-go1.24.0.linux-amd64/bin
export PATH="$TC:$PATH" GOTOOLCHAIN=local GOSUMDB=off GOFLAGS=-mod=mod GOPROXY=off
git -C /repo worktree add --detach "$WT" HEAD >/dev/null 2>&1 || { echo "worktree failed"; exit 2; }
cleanup() { git -C /repo worktree remove --force "$WT" >/dev/null 2>&1; rm -rf "$WT" "$WT.clean.log" "$WT.patched.log"; }
trap cleanup EXIT
res=""
( cd "$D" && MOQ_SRC="$WT" bash ./demo.sh >"$WT.clean.log" 2>&1 ); c=$?
res="$res clean_demo_exit=$c"
git -C "$WT" apply "$D/patch.diff" || { echo "patch does not apply"; exit 2; }
( cd "$WT" && go build ./... ) || { echo "does not compile"; exit 2; }
fails=$(cd "$WT" && go test -count=1 ./... 2>&1 | grep -E '^--- FAIL' | sed 's/ ([0-9.]*s)//' | sort | tr '\n' ' ')
res="$res tests_failing=[$fails]"
( cd "$D" && MOQ_SRC="$WT" bash ./demo.sh >"$WT.patched.log" 2>&1 ); p=$?
res="$res patched_demo_exit=$p"
echo "$res"
if [ "$c" = 0 ] && [ "$p" != 0 ] && [ "$fails" = "--- FAIL: TestGoGenerateVendoredPackages " ]; then echo CONFIRMED; exit 0; fi
echo NOT-CONFIRMED; exit 1
