#!/usr/bin/env python3
"""tools/finish_seeded.py <matrix output file>...: records in every seeded/<id>/meta.json what was
run against it and writes seeded/MATRIX.md (which check catches which seeded change)."""
import json, os, sys, re, glob
ROOT = os.path.dirname(os.path.dirname(os.path.abspath(__file__)))
rows = {}
for f in sys.argv[1:]:
    seen = set()
    for ln in open(f):
        m = re.match(r'(\S+) (C\d\d) (\w+) exit=(\d+) (\d+)s (\d+) violations', ln)
        if m:
            if m.group(1) not in seen:  # a later file replaces what an earlier one said about a change
                seen.add(m.group(1))
                rows[m.group(1)] = []
            rows.setdefault(m.group(1), []).append(dict(check=m.group(2), tier=m.group(3), exit=int(m.group(4)), wall_s=int(m.group(5)), violations=int(m.group(6))))
lines = ["# Seeded changes and the checks that catch them", "",
         "Every change was written by an independent sub-agent that saw only the property text and its own worktree; each was confirmed",
         "in a fresh worktree with tools/confirm_mutant.sh (demo passes on the clean tree, patch applies, the repository's tests keep",
         "their baseline result, demo fails with the patch) and then run against the check of its property with tools/matrix.sh",
         "(VERIF_REPO pointing at a scratch worktree with the patch applied; /repo itself is never touched).",
         "All 238 changes were run with the final checks on the final tree (six fix: commits): seeded/final-matrix-rounds1-4.txt,",
         "seeded/final-matrix-rounds5-6-and-rebased.txt, seeded/final-matrix-reruns.txt (changes that a first pass of the final run missed or",
         "that ended in an infrastructure failure, after the extension they prompted). First-run results of rounds 5 and 6: round5/6-first-run.txt.", "",
         "| id | property | needs (from the author's meta.json, shortened) | check | exit | violations |", "|---|---|---|---|---|---|"]
for d in sorted(glob.glob(os.path.join(ROOT, "seeded", "C*"))):
    sid = os.path.basename(d)
    mp = os.path.join(d, "meta.json")
    meta = {}
    try:
        meta = json.load(open(mp))
    except Exception:
        pass
    meta["property"] = meta.get("property", sid[:3])
    meta["confirmed"] = "tools/confirm_mutant.sh: clean demo exit 0, patch applies, test suite baseline (only TestGoGenerateVendoredPackages fails), patched demo exit != 0"
    if sid in rows:
        meta["checks_run"] = rows[sid]
    json.dump(meta, open(mp, "w"), indent=1)
    needs = str(meta.get("needs", "")).replace("|", "/").replace("\n", " ")
    if len(needs) > 160:
        needs = needs[:157] + "..."
    for r in rows.get(sid, [dict(check="-", exit="-", violations="-")]):
        lines.append(f"| {sid} | {meta['property']} | {needs} | {r['check']} {r.get('tier','')} | {r['exit']} | {r['violations']} |")
open(os.path.join(ROOT, "seeded", "MATRIX.md"), "w").write("\n".join(lines) + "\n")
caught = sum(1 for s in rows if any(r["exit"] == 1 for r in rows[s]))
print(f"{len(rows)} seeded changes in the matrix, {caught} caught (exit 1)")
