#!/usr/bin/env python3
"""Regenerates the findings table of DESIGN.md (between the findings-table markers) from known-findings.json."""
import json, re, sys, os
root = os.path.dirname(os.path.dirname(os.path.abspath(__file__)))
d = json.load(open(os.path.join(root, 'known-findings.json')))
rows = ['| id | property (also) | status | what | shape (how a failing input is recognised) | minimal input |', '|---|---|---|---|---|---|']
for f in d['findings']:
    also = ', '.join(f.get('also') or []) or '-'
    inp = json.dumps(f.get('input'))
    if len(inp) > 150:
        inp = inp[:150] + '...'
    st = f['status'] + (' ' + f['commit'] if f.get('commit') else '')
    rows.append('| %s | %s (%s) | %s | %s | `%s` | `%s` |' % (f['id'], f['property'], also, st, f['what'].replace('|', '\\|'), f.get('match'), inp.replace('|', '\\|')))
table = '\n'.join(rows)
p = os.path.join(root, 'DESIGN.md')
s = open(p).read()
b, e = '<!-- findings-table:begin -->', '<!-- findings-table:end -->'
if b in s:
    s = s[:s.index(b) + len(b)] + '\n' + table + '\n' + s[s.index(e):]
    open(p, 'w').write(s)
else:
    print(table)
