#!/usr/bin/env python3
"""Writes /verif/MANIFEST.json from the table below (one source of truth)."""
import json, os
ROOT = os.path.dirname(os.path.dirname(os.path.abspath(__file__)))

RT_NOTE = ("Trusted: go/reflect based driver (mockdrv) for observation, TLC for enumeration and judgement. "
           "Corpus: 14 interfaces (arity and type shapes, generics, embedding, self-returning methods, same-named methods under other parameter names, names close to the generated ones, one interface under two mock names) x 16 flag/destination variants, all generated in ONE run of the real moq CLI per variant on every check run.")
CHECKS = {
 "C03": dict(cat="model_checking", ref="§6 C03, §5.2",
   text="TLC enumerates every sequential history of MockSeq (requirement object MockAbs) up to the tier's length; each is replayed on real generated mocks (all 16 flag/destination variants x every method as subject) comparing per step what each configured function was invoked with (fingerprints, goroutine), results and panics; recorded random traces are validated back against MockSeqTrace by TLC. 'The very same arguments' is also checked under concurrency: schedule exploration of call||call scenarios with an argument check inside the configured function. Every third invocation of a configured function returns the zero value of every result (nil error, nil interface). Plus the command-line scenarios of Cli.tla in which an earlier run with other flags or an older source left a mock at -out: after the run the file is the mock this command describes (CliTrace!Current).",
   tech="TLA+ spec (MockAbs/MockSeq) + TLC enumeration replayed on real mocks + TLC trace validation (MockSeqTrace)", note=RT_NOTE),
 "C04": dict(cat="model_checking", ref="§6 C04, §5.2",
   text="Same pipeline as C03; decides recording: state after every step, what is visible inside the function, snapshot contents field by field, stability of slices returned earlier, zero-value mock; the stale-mock scenarios of Cli.tla as for C03.",
   tech="TLA+ spec (MockAbs/MockSeq) + TLC enumeration replayed on real mocks + TLC trace validation (MockSeqTrace)", note=RT_NOTE),
 "C05": dict(cat="model_checking", ref="§6 C05, §5.2, App. B",
   text="Generated code is recompiled against a scheduler-controlled stand-in for sync with yield points at every record access; all schedules of 24 hand-written and seeded random 2-3 goroutine scenarios are executed on real mocks (state-pruned DFS). Verdict: poised conflicting accesses (data race), stale returned slices, and every distinct observed history must be linearizable w.r.t. the atomic-list object, decided by TLC on MockLin. The untouched code also runs under the Go race detector. MockImpl (the template's algorithm) is model checked per scenario and its labelled state graph must equal the real mock's; thorough adds an Apalache-discharged inductive invariant (MockLock) for executions of any length.",
   tech="controlled-scheduler exhaustive schedule exploration of real mocks + TLC linearizability check (MockLin) + race detector", note=RT_NOTE + " Preemption granularity: sync operations, record accesses (append split in read/write halves), operation starts."),
 "C06": dict(cat="model_checking", ref="§6 C06, §5.2, App. B",
   text="Same sched build as C05: exact deadlock detection over all schedules of the scenarios (re-entrant callbacks, callbacks blocked until another goroutine finished its operations, nil-function panics followed by further use), and at every function entry the set of mock locks held by the caller must be empty. A logical goroutine that never reaches its next gate (blocked on a primitive outside the mock's locks, e.g. a WaitGroup) is noticed by a time limit, reproduced on a fresh mock and reported as 'an operation never returns'.",
   tech="controlled-scheduler exhaustive schedule exploration of real mocks; lock state and enabledness as in the RWMutex model of MockImpl", note=RT_NOTE),
 "C07": dict(cat="model_checking", ref="§6 C07, §5.2",
   text="Same pipeline as C03; decides the nil-function behaviour at every position of every enumerated history: default mode panics with a message naming mock type, field and interface method and invokes nothing; stub mode records and returns zero values. Plus the command-line scenarios of Cli.tla whose -out path holds the output of an earlier run with the other -stub setting (the flag must be honoured), and the flag plumbing (command line vs. library for the same configuration), including flags written after the positional arguments.",
   tech="TLA+ spec (MockAbs/MockSeq) + TLC enumeration replayed on real mocks + TLC trace validation (MockSeqTrace)", note=RT_NOTE),
 "C08": dict(cat="model_checking", ref="§6 C08, §5.2",
   text="Same pipeline as C03; decides reset behaviour (per-method reset isolated, ResetCalls complete, recording restarts from empty, also from inside callbacks) and the presence/absence of reset methods per flag via the real CLI flag; the static half (which reset methods exist) is also judged by GenTrace on the flag, generic and hand-written generator corpora (method-less, generic, embedded, aliased interfaces, method names close to the generated ones); the stale-mock scenarios of Cli.tla as for C03.",
   tech="TLA+ spec (MockAbs/MockSeq) + TLC enumeration replayed on real mocks + TLC trace validation (MockSeqTrace)", note=RT_NOTE),
}
GEN_NOTE = ("Trusted: go/parser+go/types as observation instrument (type errors in the destination package, resolution of every identifier, "
            "canonical signature keys with full package paths, instantiation of generic mocks), TLC for judgement (GenTrace) and for the "
            "implementation-shaped models (Registry, Scope -> GenPredict) that classify known-finding shapes and report SPEC-DRIFT. "
            "Inputs are materialised in a scratch Go module; moq runs through its production entry points (moq.New + Mocker.Mock) in worker subprocesses.")
GEN = "abstract input universes materialised as Go packages + production moq + go/types projection judged by TLC on spec/GenTrace.tla; Registry/Scope TLA+ models predict aliases, names, divergence (drift + finding shapes)"
CHECKS.update({
 "C01": dict(cat="model_checking", ref="§6 C01, §5.1", tech=GEN, note=GEN_NOTE,
   text="Every case of the type, import, name, generic, flag, multi-interface, cross-method, hand-written and seeded random (plain, generic, multi-interface) corpora (all type constructors in all signature positions; ordered selections of adversarial import paths incl. keyword/digit/vendor-like elements; parameter-name universe, 12-variable methods; 15 constraint kinds; all 32 flag/destination combinations) is generated and type-checked in its destination package; TLC evaluates FileWellFormed (C01) on every observation record. Flag plumbing: for 18 flag combinations the binary's stdout equals the library's output for the corresponding configuration."),
 "C02": dict(cat="model_checking", ref="§6 C02, §5.1", tech=GEN, note=GEN_NOTE,
   text="For every case the canonical signature keys (full package paths, names stripped) of interface methods, mock methods and func fields are compared by TLC (MockImplements), plus assignability, with and without the ensure line; generic mocks on instantiations."),
 "C09": dict(cat="model_checking", ref="§6 C09, §5.1", tech=GEN, note=GEN_NOTE,
   text="Generic corpus (15 constraint kinds: any, comparable, method sets, unions, named constraints local and from other packages, comparable or a marker interface ahead of a union, mixed; 1-3 parameters, swapped, lower-case and initialism-like names, unnamed parameters of type-parameter type) and seeded random generic interfaces x destinations x flags: type-parameter count/order/constraints compared, and for every type-argument list over 9 candidate types: I[args] valid <=> Mock[args] valid, and then *Mock[args] assignable to I[args] with identical signatures (GenericKept)."),
 "C10": dict(cat="model_checking", ref="§6 C10, §5.1", tech=GEN, note=GEN_NOTE,
   text="Four destination modes x skip-ensure x signatures that do/do not mention source-package types (also only in constraints): imports of the source path, qualified and bare uses of source-package objects resolved by go/types, judged by TLC (C10 predicate), plus 'misresolved' references: mock and interface signatures walked in parallel, a same-named type of another package at the same position."),
 "C11": dict(cat="model_checking", ref="§6 C11, §5.1", tech=GEN, note=GEN_NOTE,
   text="Import corpus: every ordered selection of up to 3 packages from an adversarial path/name universe (equal base names, equal after sanitising, concatenation clashes, version suffixes, keyword/digit/predeclared path elements, elements that merely contain 'vendor') with source-alias variants (also one package under two aliases in two files); TLC judges exactness, canonical paths, unique valid qualifiers, sync iff needed, free source aliases kept; the Registry model (exhaustive over map-order choices) predicts every alias and classifies duplicate/divergent shapes."),
 "C12": dict(cat="model_checking", ref="§6 C12, §5.1", tech=GEN, note=GEN_NOTE,
   text="Name corpus (all pairs over a 32-name universe incl. numbered/suffixed variants and package names, random triples/quadruples, named results, stub mode, methods with 12 variables and a late clash, an unexported alias type), cross-method and random corpora: TLC judges pairwise distinctness, keywords, body names, identifiers the signature must still resolve, record fields; the Scope model predicts every final name (zero drift on the unchanged tree)."),
 "C13": dict(cat="model_checking", ref="§6 C13, §5.1", tech=GEN, note=GEN_NOTE,
   text="One single-parameter method per name: every golint initialism in every casing (thorough: all 2^len), near misses, ordinary names; every unnamed type shape. TLC computes the expected parameter and record-field name from an independent transcription of the documented rule (MoqNames: Exported, DefaultName) and compares."),
 "C14": dict(cat="model_checking", ref="§6 C14, §5.1", tech=GEN, note=GEN_NOTE,
   text="Every case of the import, multi-interface and type corpora is generated repeatedly with fresh Mocker instances in one process (Go randomises each map iteration) and all outputs must be byte-identical (C14 predicate); the Registry model marks the inputs with map-order choice points. Between the first and the second generation of every request the worker performs two generations that fail after rendering (library history); the command-line scenarios whose -out holds own output of another flag set must give the reference bytes."),
 "C16": dict(cat="model_checking", ref="§6 C16, §5.1", tech=GEN, note=GEN_NOTE + " go/format is the reference function for 'gofmt-canonical'.",
   text="Flag, hand-written, random generic and multi-interface corpora x default/gofmt/noop/goimports: marker line first and before the package clause, gofmt(output)=output, default=gofmt, gofmt(noop)=default byte-for-byte, goimports keeps declarations and import set; equations stated in GenTrace (C16), go/format supplies the reference values."),
 "C20": dict(cat="model_checking", ref="§6 C20, §5.1", tech=GEN, note=GEN_NOTE,
   text="All ordered argument lists of length 2-3 over a package's interfaces plus alias variants, seeded random groups of 2-4 interfaces, lists with a finding-shaped neighbour: the output's type declarations are exactly the requested mock names in order; each mock's fields/methods/signature keys/record types equal those of the solo generation (MockShape equality in GenTrace)."),
})
CLI_NOTE = ("Trusted: strace (-ff -ttt -y; fault injection with -e inject=write:error=ENOSPC -P <out>) and recursive before/after snapshots as observation "
            "instruments; TLC enumerates the scenarios (spec/Cli.tla, with the requirements as invariants) and judges every observed run (spec/CliTrace.tla). "
            "moq runs without GOFLAGS in a scratch module with a complete go.mod.")
CLI = "TLA+ model of main.go (Cli.tla) enumerated by TLC, every scenario replayed on the real binary under strace, observations judged by TLC (CliTrace.tla); library-level corpora through GenTrace"
CHECKS.update({
 "C15": dict(cat="model_checking", ref="§6 C15, §5.3", tech=CLI, note=CLI_NOTE,
   text="All scenarios of Cli.tla (11 prior states of -out x -rm x 5 output modes x 11 argument shapes x flags -version/-h/undefined x 5 states of the module) in 6 command-line spellings (one through a symbolic link and ..) on the real binary: own output is a fixed point, with -rm the result equals the reference output whatever was there and the unlink precedes the package load (strace). Library level: for the in-place cases of the import/type/name/multi/raw corpora the first output is installed in the package and generation repeated, bytes compared; the Registry+Scope models, run twice with their own aliases fed back, define the shape of the recorded non-idempotence finding."),
 "C17": dict(cat="model_checking", ref="§6 C17, §5.3", tech=CLI, note=CLI_NOTE,
   text="Every failure point of Cli.tla (undefined flag, argument count, unlink, package load in five ways, k-th lookup, duplicate mock name, format, mkdir, open, write via injected ENOSPC also in a pre-existing empty directory, stdout=/dev/full; TMPDIR on another file system) x prior states x -rm x spellings on the real binary: exit status, diagnostic, no source on stdout, -out bytes untouched / gone / complete, exactly one truncating open and one write carrying source (strace); where the scenario contains one of the failures the property enumerates, exit 0 is a violation (MustFail); -version and -h touch nothing. Library level: bad argument at each position and failing writers (after 0/1/40/500 bytes): Write called at most once and never on failure."),
 "C18": dict(cat="model_checking", ref="§6 C18, §5.3", tech=CLI, note=CLI_NOTE,
   text="Every run of the C17 scenario set: recursive snapshot (type, mode, sha256) of the scratch module before and after must differ only at -out and its new parent directories, directories that existed before still exist; strace: no successful unlink/rename/mkdir/chmod/open-for-write by moq or its children on any other path inside the tree (paths resolved as the kernel does: symbolic links, then ..)."),
 "C19": dict(cat="model_checking", ref="§6 C19, §5.3", tech=CLI, note=CLI_NOTE,
   text="Every scenario run must end within the watchdog, no Go panic/fatal text, exit 0 only with output (or -version/-h), and the diagnostic names the argument, the duplicate mock name or the undefined flag where that is what fails; library level: the adversarial import/name/generic/raw corpora and 30 kinds of argument strings (empty, ':', trailing ':', funcs, consts, vars of interface type, generic structs, self-referential constraints) must return output or an error - crashes only where the Registry/Scope models predict divergence or a nil dereference (recorded findings)."),
})
PENDING = {}
for p in []:
    if p not in CHECKS:
        PENDING[p] = "check under construction in this round (see DESIGN.md §11); not claimed until its machinery is committed"

manifest = {
 "version": 1,
 "setup_cmd": "sh bin/setup.sh",
 "hooks": {"guard": "verif", "enable": "no hooks are needed: checks observe moq's output, the generated mocks (recompiled against a stand-in for sync) and the CLI's system calls",
           "baseline_off_cmd": "cd /repo && PATH=/root/go/pkg/mod/golang.org/toolchain@v0.0.1-go1.24.0.linux-amd64/bin:$PATH GOFLAGS=-mod=mod GOPROXY=off go test -vet=off -count=1 ./...",
           "source_commits": [], "add_only": True},
 "engines": [
   {"name": "tlc", "path": "/opt/veriftools/tla/tla2tools.jar", "serves_properties": sorted(CHECKS), "kind_free_text": "TLC model checker on the specifications under /verif/spec"},
   {"name": "verif", "path": "harness/cmd/verif", "serves_properties": sorted(CHECKS), "kind_free_text": "Go harness: materialises spec universes, drives real moq / real mocks / real CLI, projects observations, calls TLC"},
 ],
 "checks": [],
 "notes": "bin/check <id> <tier> rebuilds harness and moq from /repo's working tree on every run. Exit 2 = infrastructure failure (never a violation).",
 "not_applicable": [{"property_id": p, "reason": r} for p, r in sorted(PENDING.items())],
}
for p in sorted(CHECKS):
    c = CHECKS[p]
    manifest["checks"].append({
      "property_id": p, "quick_cmd": f"bin/check {p} quick", "thorough_cmd": f"bin/check {p} thorough",
      "evidence_file": f"evidence/{p}.json", "engine": "verif", "replay_cmd_template": "bin/check --replay {path}",
      "level_claimed": {"category": c["cat"], "text": c["text"], "design_ref": c["ref"]},
      "level_note": c["note"], "technique": c["tech"]})
json.dump(manifest, open(os.path.join(ROOT, "MANIFEST.json"), "w"), indent=1)
print("wrote MANIFEST.json:", len(manifest["checks"]), "checks,", len(manifest["not_applicable"]), "pending")
