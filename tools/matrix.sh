#!/bin/bash
# tools/matrix.sh [tier] [pairs...]: runs every seeded change against the check of
# its own property (or the given <seeded-id>:<property> pairs), each in its own
# scratch worktree of /repo (VERIF_REPO), up to 3 at a time. Evidence files
# are written to a private VERIF_ROOT copy so /verif/evidence is not disturbed.
# Output: seeded/matrix.txt lines "<id> <property> <tier> exit=<n> <seconds>s"
TIER="${1:-quick}"; shift
VROOT="$(cd "$(dirname "$0")/.." && pwd)"; export VROOT
PAIRS="$*"
if [ -z "$PAIRS" ]; then for d in $VROOT/seeded/C*/; do id=$(basename $d); PAIRS="$PAIRS $id:${id%%-*}"; done; fi
run_one() {
  pair=$1; id=${pair%%:*}; prop=${pair##*:}
  wt=$(mktemp -d /tmp/mx-XXXXXX); rmdir $wt
  git -C /repo worktree add --detach $wt HEAD >/dev/null 2>&1 || { echo "$id $prop worktree-failed"; return; }
  git -C $wt apply $VROOT/seeded/$id/patch.diff || { echo "$id $prop patch-failed"; git -C /repo worktree remove --force $wt; return; }
  vr=$(mktemp -d /tmp/mxroot-XXXXXX)
  cp -r $VROOT/spec $VROOT/harness $VROOT/bin $VROOT/known-findings.json $vr/ 2>/dev/null; mkdir -p $vr/evidence
  s=$(date +%s)
  VERIF_ROOT=$vr VERIF_REPO=$wt $vr/bin/check $prop $TIER > $vr/out.txt 2> $vr/err.txt; rc=$?
  e=$(date +%s)
  echo "$id $prop $TIER exit=$rc $((e-s))s $(grep -c VIOLATION $vr/out.txt) violations $(grep -m1 INFRA $vr/err.txt | cut -c1-120)"
  git -C /repo worktree remove --force $wt >/dev/null 2>&1; rm -rf $wt $vr
}
export -f run_one; export TIER
printf "%s\n" $PAIRS | xargs -P ${MATRIX_P:-3} -I{} bash -c 'run_one {}'
