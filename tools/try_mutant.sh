#!/bin/sh
# tools/try_mutant.sh <seeded dir> <property> [tier]
# Applies a seeded change to /repo, runs one check, reverts /repo.
set -u
D="$(cd "$1" && pwd)"; P="$2"; T="${3:-quick}"
git -C /repo diff --quiet || { echo "/repo is dirty"; exit 2; }
git -C /repo apply "$D/patch.diff" || exit 2
trap 'git -C /repo checkout -- . ; git -C /repo clean -fdq' EXIT INT TERM
start=$(date +%s)
/verif/bin/check "$P" "$T" > /tmp/try-$P.out 2>/tmp/try-$P.err; rc=$?
end=$(date +%s)
echo "mutant=$(basename $D) check=$P tier=$T exit=$rc wall=$((end-start))s"
grep -E '^(VIOLATION|KNOWN-FINDING|SPEC-DRIFT)' /tmp/try-$P.out | head -5
[ $rc = 2 ] && tail -5 /tmp/try-$P.err
exit 0
